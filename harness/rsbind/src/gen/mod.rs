pub const ALL: &[(&str, fn() -> Vec<String>)] = &[];
