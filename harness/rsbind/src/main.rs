//! Batch crate for C18: the emitted Rust bindings of N generated programs, one
//! module each, compiled against /repo's candid; `main` runs every module's
//! `check()` and prints one JSON line per program.
#![allow(clippy::all)]

pub mod support;
#[allow(warnings)]
mod gen;

fn main() {
    for (name, f) in gen::ALL {
        let r = std::panic::catch_unwind(|| f());
        let failures: Vec<String> = match r {
            Ok(v) => v,
            Err(_) => vec!["check() panicked".to_string()],
        };
        println!("{}", serde_json::json!({"program": name, "failures": failures}));
    }
}
