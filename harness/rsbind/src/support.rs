//! Comparison of the Candid types computed by the derive macro for the emitted
//! Rust types with the source types of the .did program.

use candid::types::{Type, TypeEnv, TypeInner};
use candid_parser::{check_prog, IDLProg};
use vf::refmodel::rsub;
use vf::refmodel::rtype::{self, Builder};

pub struct Source {
    pub env: TypeEnv,
    pub actor: Option<Type>,
}

pub fn load(did: &str) -> Source {
    let ast: IDLProg = did.parse().expect("source program parses");
    let mut env = TypeEnv::new();
    let actor = check_prog(&mut env, &ast).expect("source program checks");
    Source { env, actor }
}

fn bisimilar(senv: &TypeEnv, st: &Type, eenv: &TypeEnv, et: &Type) -> Result<(), String> {
    let (renv1, rt1) = (rtype::env_from_candid(senv).map_err(|e| format!("{e:?}"))?, rtype::from_candid(st).map_err(|e| format!("{e:?}"))?);
    let (renv2, rt2) = (rtype::env_from_candid(eenv).map_err(|e| format!("{e:?}"))?, rtype::from_candid(et).map_err(|e| format!("{e:?}"))?);
    let mut b1 = Builder::new(&renv1);
    let r1 = b1.ty(&rt1).map_err(|e| format!("source type: {e:?}"))?;
    let mut b2 = Builder::new(&renv2);
    let r2 = b2.ty(&rt2).map_err(|e| format!("emitted type: {e:?}"))?;
    if rsub::equal_across(&b1.graph, r1, &b2.graph, r2) {
        Ok(())
    } else {
        Err(format!(
            "source {} but the emitted Rust type has Candid type {}",
            rtype::show_node(&b1.graph, r1, 5),
            rtype::show_node(&b2.graph, r2, 5)
        ))
    }
}

/// Compare the argument and result types of one method.
pub fn compare_method(src: &Source, method: &str, eenv: &TypeEnv, args: &[Type], rets: &[Type]) -> Vec<String> {
    let mut out = vec![];
    let actor = match &src.actor {
        Some(a) => a,
        None => return vec!["no actor".into()],
    };
    let f = match src.env.get_method(actor, method) {
        Ok(f) => f.clone(),
        Err(e) => return vec![format!("method {method:?}: {e}")],
    };
    if f.args.len() != args.len() || f.rets.len() != rets.len() {
        return vec![format!("method {method:?}: arity ({}, {}) became ({}, {})", f.args.len(), f.rets.len(), args.len(), rets.len())];
    }
    for (i, (s, e)) in f.args.iter().zip(args).enumerate() {
        if let Err(why) = bisimilar(&src.env, s, eenv, e) {
            out.push(format!("method {method:?} argument {i}: {why}"));
        }
    }
    for (i, (s, e)) in f.rets.iter().zip(rets).enumerate() {
        if let Err(why) = bisimilar(&src.env, s, eenv, e) {
            out.push(format!("method {method:?} result {i}: {why}"));
        }
    }
    out
}

pub fn compare_init(src: &Source, eenv: &TypeEnv, args: &[Type]) -> Vec<String> {
    let mut out = vec![];
    let init: Vec<Type> = match src.actor.as_ref().map(|a| a.as_ref()) {
        Some(TypeInner::Class(a, _)) => a.clone(),
        _ => vec![],
    };
    if init.len() != args.len() {
        return vec![format!("init args: {} became {}", init.len(), args.len())];
    }
    for (i, (s, e)) in init.iter().zip(args).enumerate() {
        if let Err(why) = bisimilar(&src.env, s, eenv, e) {
            out.push(format!("init argument {i}: {why}"));
        }
    }
    out
}

/// Turns the type computed by `T::ty()` into a closed (environment, type) pair:
/// `Knot` back-references become variables bound to the type registered for that
/// Rust type. Independent of `TypeContainer` (which C12 looks at).
pub struct Closer {
    pub env: TypeEnv,
}

impl Closer {
    pub fn new() -> Closer {
        Closer { env: TypeEnv::new() }
    }
    pub fn add<T: candid::CandidType>(&mut self) -> Type {
        let t = T::ty();
        self.go(&t)
    }
    fn go(&mut self, t: &Type) -> Type {
        use candid::types::{Field, Function};
        match t.as_ref() {
            TypeInner::Knot(id) => {
                let name = format!("knot_{id}");
                if !self.env.0.contains_key(&name) {
                    self.env.0.insert(name.clone(), TypeInner::Reserved.into());
                    let ty = candid::types::internal::find_type(id).expect("knot refers to a registered type");
                    let closed = self.go(&ty);
                    self.env.0.insert(name.clone(), closed);
                }
                TypeInner::Var(name).into()
            }
            TypeInner::Opt(x) => TypeInner::Opt(self.go(x)).into(),
            TypeInner::Vec(x) => TypeInner::Vec(self.go(x)).into(),
            TypeInner::Record(fs) => TypeInner::Record(fs.iter().map(|f| Field { id: f.id.clone(), ty: self.go(&f.ty) }).collect()).into(),
            TypeInner::Variant(fs) => TypeInner::Variant(fs.iter().map(|f| Field { id: f.id.clone(), ty: self.go(&f.ty) }).collect()).into(),
            TypeInner::Func(f) => TypeInner::Func(Function {
                modes: f.modes.clone(),
                args: f.args.iter().map(|x| self.go(x)).collect(),
                rets: f.rets.iter().map(|x| self.go(x)).collect(),
            })
            .into(),
            TypeInner::Service(ms) => TypeInner::Service(ms.iter().map(|(n, x)| (n.clone(), self.go(x))).collect()).into(),
            TypeInner::Class(a, s) => TypeInner::Class(a.iter().map(|x| self.go(x)).collect(), self.go(s)).into(),
            _ => t.clone(),
        }
    }
}
