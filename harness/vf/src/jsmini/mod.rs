//! Evaluator for exactly the JavaScript subset the binding generator emits,
//! under ECMAScript rules (module code, hence strict mode):
//!
//!   export const NAME = ({ IDL }) => { stmt* };
//!   stmt := const X = e; | X.fill(e); | return e;
//!   e    := X | X.getType() | IDL.Prim | IDL.Ctor(e,*) | [e,*] | { key : e,* } | 'string'
//!
//! Its `IDL` object builds a type graph (refmodel::rtype::Graph); `Rec()` nodes
//! are patched by `fill`. Keys of the form _N_ denote numeric field ids (the
//! convention of the JavaScript agent library); other keys are hashed.

use crate::refmodel::rtype::{rhash, Graph, Mode, Node, Prim, TId};
use std::collections::BTreeMap;

#[derive(Debug, Clone, PartialEq)]
pub enum Tok {
    Ident(String),
    Str(String),
    Punct(&'static str),
    Eof,
}

#[derive(Debug, Clone)]
pub struct JsError(pub String);

fn err<T>(s: impl Into<String>) -> Result<T, JsError> {
    Err(JsError(s.into()))
}

pub const RESERVED: &[&str] = &[
    "break", "case", "catch", "class", "const", "continue", "debugger", "default", "delete", "do", "else", "enum", "export", "extends",
    "false", "finally", "for", "function", "if", "import", "in", "instanceof", "new", "null", "return", "super", "switch", "this",
    "throw", "true", "try", "typeof", "var", "void", "while", "with",
    // strict mode
    "implements", "interface", "let", "package", "private", "protected", "public", "static", "yield",
    // module code
    "await",
];
/// May not be used as a binding name in strict mode.
pub const UNBINDABLE: &[&str] = &["eval", "arguments"];

fn is_id_start(c: char) -> bool {
    c == '$' || c == '_' || c.is_alphabetic()
}
fn is_id_part(c: char) -> bool {
    c == '$' || c == '_' || c.is_alphanumeric() || c == '\u{200c}' || c == '\u{200d}'
}

pub fn lex(src: &str) -> Result<Vec<Tok>, JsError> {
    let cs: Vec<char> = src.chars().collect();
    let mut i = 0;
    let mut out = vec![];
    while i < cs.len() {
        let c = cs[i];
        if c.is_whitespace() || c == '\u{feff}' {
            i += 1;
            continue;
        }
        if c == '/' && i + 1 < cs.len() && cs[i + 1] == '/' {
            while i < cs.len() && cs[i] != '\n' {
                i += 1;
            }
            continue;
        }
        if c == '/' && i + 1 < cs.len() && cs[i + 1] == '*' {
            i += 2;
            loop {
                if i + 1 >= cs.len() {
                    return err("unterminated block comment");
                }
                if cs[i] == '*' && cs[i + 1] == '/' {
                    i += 2;
                    break;
                }
                i += 1;
            }
            continue;
        }
        if is_id_start(c) {
            let mut s = String::new();
            while i < cs.len() && is_id_part(cs[i]) {
                s.push(cs[i]);
                i += 1;
            }
            out.push(Tok::Ident(s));
            continue;
        }
        if c == '\'' || c == '"' {
            let q = c;
            i += 1;
            let mut s = String::new();
            loop {
                if i >= cs.len() {
                    return err("unterminated string literal");
                }
                let d = cs[i];
                if d == q {
                    i += 1;
                    break;
                }
                if d == '\n' || d == '\r' {
                    return err("line terminator in string literal");
                }
                if d != '\\' {
                    s.push(d);
                    i += 1;
                    continue;
                }
                // escape sequence
                i += 1;
                if i >= cs.len() {
                    return err("unterminated escape");
                }
                let e = cs[i];
                i += 1;
                match e {
                    'n' => s.push('\n'),
                    'r' => s.push('\r'),
                    't' => s.push('\t'),
                    'b' => s.push('\u{8}'),
                    'f' => s.push('\u{c}'),
                    'v' => s.push('\u{b}'),
                    '0' => {
                        if i < cs.len() && cs[i].is_ascii_digit() {
                            return err("legacy octal escape in strict mode");
                        }
                        s.push('\0');
                    }
                    '1'..='9' => return err("octal / \\8 \\9 escape in strict mode"),
                    'x' => {
                        if i + 1 >= cs.len() || !cs[i].is_ascii_hexdigit() || !cs[i + 1].is_ascii_hexdigit() {
                            return err("bad \\x escape");
                        }
                        let v = u32::from_str_radix(&cs[i..i + 2].iter().collect::<String>(), 16).unwrap();
                        s.push(char::from_u32(v).unwrap());
                        i += 2;
                    }
                    'u' => {
                        if i < cs.len() && cs[i] == '{' {
                            let mut j = i + 1;
                            let mut h = String::new();
                            while j < cs.len() && cs[j] != '}' {
                                h.push(cs[j]);
                                j += 1;
                            }
                            if j >= cs.len() || h.is_empty() || !h.chars().all(|c| c.is_ascii_hexdigit()) {
                                return err("bad \\u{} escape");
                            }
                            let v = u32::from_str_radix(&h, 16).map_err(|_| JsError("bad \\u{} escape".into()))?;
                            if v > 0x10ffff {
                                return err("\\u{} escape out of range");
                            }
                            // lone surrogates are representable in JS strings; map to U+FFFD here
                            s.push(char::from_u32(v).unwrap_or('\u{fffd}'));
                            i = j + 1;
                        } else {
                            if i + 3 >= cs.len() || !cs[i..i + 4].iter().all(|c| c.is_ascii_hexdigit()) {
                                return err("bad \\u escape");
                            }
                            let v = u32::from_str_radix(&cs[i..i + 4].iter().collect::<String>(), 16).unwrap();
                            s.push(char::from_u32(v).unwrap_or('\u{fffd}'));
                            i += 4;
                        }
                    }
                    '\n' | '\u{2028}' | '\u{2029}' => {} // line continuation
                    '\r' => {
                        if i < cs.len() && cs[i] == '\n' {
                            i += 1;
                        }
                    }
                    other => s.push(other), // identity escape
                }
            }
            out.push(Tok::Str(s));
            continue;
        }
        if c == '=' && i + 1 < cs.len() && cs[i + 1] == '>' {
            out.push(Tok::Punct("=>"));
            i += 2;
            continue;
        }
        let p = match c {
            '(' => "(",
            ')' => ")",
            '{' => "{",
            '}' => "}",
            '[' => "[",
            ']' => "]",
            ',' => ",",
            ':' => ":",
            ';' => ";",
            '.' => ".",
            '=' => "=",
            other => return err(format!("unexpected character {other:?}")),
        };
        out.push(Tok::Punct(p));
        i += 1;
    }
    out.push(Tok::Eof);
    Ok(out)
}

#[derive(Debug, Clone)]
pub enum Val {
    Type(TId),
    Array(Vec<Val>),
    Object(Vec<(String, Val)>),
    Str(String),
}

pub struct Interp {
    toks: Vec<Tok>,
    pos: usize,
    pub graph: Graph,
    /// Rec() nodes not yet filled
    unfilled: Vec<TId>,
}

/// Key of a record/variant field: `_N_` is the numeric id N, anything else is hashed.
pub fn label_to_id(key: &str) -> u32 {
    if key.len() >= 3 && key.starts_with('_') && key.ends_with('_') {
        let mid = &key[1..key.len() - 1];
        if !mid.is_empty() && mid.chars().all(|c| c.is_ascii_digit()) {
            if let Ok(n) = mid.parse::<u64>() {
                if n < (1u64 << 32) {
                    return n as u32;
                }
            }
        }
    }
    rhash(key)
}

pub struct Exported {
    pub name: String,
    pub value: Val,
}

impl Interp {
    pub fn new(src: &str) -> Result<Interp, JsError> {
        Ok(Interp {
            toks: lex(src)?,
            pos: 0,
            graph: Graph::new(),
            unfilled: vec![],
        })
    }
    fn peek(&self) -> &Tok {
        &self.toks[self.pos]
    }
    fn next(&mut self) -> Tok {
        let t = self.toks[self.pos].clone();
        if self.pos + 1 < self.toks.len() {
            self.pos += 1;
        }
        t
    }
    fn expect(&mut self, p: &'static str) -> Result<(), JsError> {
        match self.next() {
            Tok::Punct(q) if q == p => Ok(()),
            other => err(format!("expected {p:?}, found {other:?}")),
        }
    }
    fn keyword(&mut self, k: &str) -> Result<(), JsError> {
        match self.next() {
            Tok::Ident(s) if s == k => Ok(()),
            other => err(format!("expected {k}, found {other:?}")),
        }
    }
    fn binding_name(&mut self) -> Result<String, JsError> {
        match self.next() {
            Tok::Ident(s) => {
                if RESERVED.contains(&s.as_str()) {
                    err(format!("reserved word {s:?} used as a binding name"))
                } else if UNBINDABLE.contains(&s.as_str()) {
                    err(format!("{s:?} cannot be bound in strict mode"))
                } else {
                    Ok(s)
                }
            }
            other => err(format!("expected identifier, found {other:?}")),
        }
    }

    /// Evaluates all `export const NAME = ({ IDL }) => { ... };` declarations.
    pub fn run(&mut self) -> Result<Vec<Exported>, JsError> {
        let mut out: Vec<Exported> = vec![];
        while *self.peek() != Tok::Eof {
            self.keyword("export")?;
            self.keyword("const")?;
            let name = self.binding_name()?;
            if out.iter().any(|e| e.name == name) {
                return err(format!("redeclaration of {name}"));
            }
            self.expect("=")?;
            self.expect("(")?;
            self.expect("{")?;
            self.keyword("IDL")?;
            self.expect("}")?;
            self.expect(")")?;
            self.expect("=>")?;
            self.expect("{")?;
            let value = self.body()?;
            self.expect("}")?;
            self.expect(";")?;
            out.push(Exported { name, value });
        }
        Ok(out)
    }

    fn body(&mut self) -> Result<Val, JsError> {
        // `const` declarations are hoisted with a temporal dead zone: collect the
        // names declared in this block first
        let mut declared: Vec<String> = vec![];
        let mut depth = 0usize;
        let mut i = self.pos;
        while i < self.toks.len() {
            match &self.toks[i] {
                Tok::Punct("{") => depth += 1,
                Tok::Punct("}") => {
                    if depth == 0 {
                        break;
                    }
                    depth -= 1;
                }
                Tok::Ident(k) if k == "const" && depth == 0 => {
                    if let Some(Tok::Ident(n)) = self.toks.get(i + 1) {
                        if declared.contains(n) {
                            return err(format!("Identifier '{n}' has already been declared"));
                        }
                        if n == "IDL" {
                            return err("Identifier 'IDL' has already been declared (parameter)");
                        }
                        declared.push(n.clone());
                    }
                }
                Tok::Eof => break,
                _ => {}
            }
            i += 1;
        }
        let mut scope: BTreeMap<String, Val> = BTreeMap::new();
        loop {
            match self.peek().clone() {
                Tok::Ident(k) if k == "const" => {
                    self.next();
                    let name = self.binding_name()?;
                    self.expect("=")?;
                    let v = self.expr(&scope, &declared)?;
                    self.expect(";")?;
                    scope.insert(name, v);
                }
                Tok::Ident(k) if k == "return" => {
                    self.next();
                    let v = self.expr(&scope, &declared)?;
                    self.expect(";")?;
                    if !matches!(self.peek(), Tok::Punct("}")) {
                        return err("statements after return");
                    }
                    return Ok(v);
                }
                Tok::Ident(_) => {
                    // X.fill(e);
                    let target = self.expr_primary(&scope, &declared)?;
                    let _ = target;
                    self.expect(";")?;
                }
                other => return err(format!("unexpected token {other:?} in function body")),
            }
        }
    }

    fn lookup(&self, name: &str, scope: &BTreeMap<String, Val>, declared: &[String]) -> Result<Val, JsError> {
        if RESERVED.contains(&name) {
            return err(format!("reserved word {name:?} used as an identifier"));
        }
        if let Some(v) = scope.get(name) {
            return Ok(v.clone());
        }
        if declared.iter().any(|d| d == name) {
            return err(format!("Cannot access '{name}' before initialization"));
        }
        err(format!("{name} is not defined"))
    }

    fn expr(&mut self, scope: &BTreeMap<String, Val>, declared: &[String]) -> Result<Val, JsError> {
        self.expr_primary(scope, declared)
    }

    fn args(&mut self, scope: &BTreeMap<String, Val>, declared: &[String]) -> Result<Vec<Val>, JsError> {
        self.expect("(")?;
        let mut v = vec![];
        loop {
            if matches!(self.peek(), Tok::Punct(")")) {
                self.next();
                return Ok(v);
            }
            v.push(self.expr(scope, declared)?);
            match self.next() {
                Tok::Punct(",") => {}
                Tok::Punct(")") => return Ok(v),
                other => return err(format!("expected , or ) in arguments, found {other:?}")),
            }
        }
    }

    fn as_type(&mut self, v: &Val) -> Result<TId, JsError> {
        match v {
            Val::Type(t) => Ok(*t),
            other => err(format!("expected an IDL type, found {other:?}")),
        }
    }

    fn fields(&mut self, v: &Val) -> Result<Vec<(u32, TId)>, JsError> {
        match v {
            Val::Object(kvs) => {
                // later duplicate keys overwrite earlier ones in an object literal
                let mut m: BTreeMap<String, Val> = BTreeMap::new();
                let mut order = vec![];
                for (k, x) in kvs {
                    if m.insert(k.clone(), x.clone()).is_none() {
                        order.push(k.clone());
                    }
                }
                let mut out = vec![];
                for k in order {
                    let t = self.as_type(&m[&k].clone())?;
                    out.push((label_to_id(&k), t));
                }
                out.sort_by_key(|f| f.0);
                for w in out.windows(2) {
                    if w[0].0 == w[1].0 {
                        return err(format!("two fields with id {}", w[0].0));
                    }
                }
                Ok(out)
            }
            other => err(format!("expected an object of fields, found {other:?}")),
        }
    }

    fn expr_primary(&mut self, scope: &BTreeMap<String, Val>, declared: &[String]) -> Result<Val, JsError> {
        match self.next() {
            Tok::Str(s) => Ok(Val::Str(s)),
            Tok::Punct("[") => {
                let mut v = vec![];
                loop {
                    if matches!(self.peek(), Tok::Punct("]")) {
                        self.next();
                        return Ok(Val::Array(v));
                    }
                    v.push(self.expr(scope, declared)?);
                    match self.next() {
                        Tok::Punct(",") => {}
                        Tok::Punct("]") => return Ok(Val::Array(v)),
                        other => return err(format!("expected , or ] in array, found {other:?}")),
                    }
                }
            }
            Tok::Punct("{") => {
                let mut kvs = vec![];
                loop {
                    let key = match self.next() {
                        Tok::Punct("}") => return Ok(Val::Object(kvs)),
                        Tok::Str(s) => s,
                        Tok::Ident(s) => s, // any IdentifierName, reserved words included
                        other => return err(format!("bad object key {other:?}")),
                    };
                    self.expect(":")?;
                    let v = self.expr(scope, declared)?;
                    kvs.push((key, v));
                    match self.next() {
                        Tok::Punct(",") => {}
                        Tok::Punct("}") => return Ok(Val::Object(kvs)),
                        other => return err(format!("expected , or }} in object, found {other:?}")),
                    }
                }
            }
            Tok::Ident(name) if name == "IDL" => {
                self.expect(".")?;
                let ctor = match self.next() {
                    Tok::Ident(c) => c,
                    other => return err(format!("expected IDL member, found {other:?}")),
                };
                let prim = match ctor.as_str() {
                    "Null" => Some(Prim::Null),
                    "Bool" => Some(Prim::Bool),
                    "Nat" => Some(Prim::Nat),
                    "Int" => Some(Prim::Int),
                    "Nat8" => Some(Prim::Nat8),
                    "Nat16" => Some(Prim::Nat16),
                    "Nat32" => Some(Prim::Nat32),
                    "Nat64" => Some(Prim::Nat64),
                    "Int8" => Some(Prim::Int8),
                    "Int16" => Some(Prim::Int16),
                    "Int32" => Some(Prim::Int32),
                    "Int64" => Some(Prim::Int64),
                    "Float32" => Some(Prim::Float32),
                    "Float64" => Some(Prim::Float64),
                    "Text" => Some(Prim::Text),
                    "Reserved" => Some(Prim::Reserved),
                    "Empty" => Some(Prim::Empty),
                    "Principal" => Some(Prim::Principal),
                    _ => None,
                };
                if let Some(p) = prim {
                    return Ok(Val::Type(self.graph.prim(p)));
                }
                let args = self.args(scope, declared)?;
                let node = match (ctor.as_str(), args.as_slice()) {
                    ("Rec", []) => {
                        let t = self.graph.add(Node::Hole);
                        self.unfilled.push(t);
                        return Ok(Val::Type(t));
                    }
                    ("Opt", [a]) => Node::Opt(self.as_type(a)?),
                    ("Vec", [a]) => Node::Vec(self.as_type(a)?),
                    ("Tuple", elems) => {
                        let mut fs = vec![];
                        for (i, a) in elems.iter().enumerate() {
                            fs.push((i as u32, self.as_type(a)?));
                        }
                        Node::Record(fs)
                    }
                    ("Record", [o]) => Node::Record(self.fields(o)?),
                    ("Variant", [o]) => Node::Variant(self.fields(o)?),
                    ("Func", [Val::Array(a), Val::Array(r), Val::Array(m)]) => {
                        let mut args2 = vec![];
                        for x in a {
                            args2.push(self.as_type(x)?);
                        }
                        let mut rets = vec![];
                        for x in r {
                            rets.push(self.as_type(x)?);
                        }
                        let mut modes = vec![];
                        for x in m {
                            modes.push(match x {
                                Val::Str(s) if s == "query" => Mode::Query,
                                Val::Str(s) if s == "oneway" => Mode::Oneway,
                                Val::Str(s) if s == "composite_query" => Mode::CompositeQuery,
                                other => return err(format!("bad function annotation {other:?}")),
                            });
                        }
                        modes.sort();
                        Node::Func { args: args2, rets, modes }
                    }
                    ("Service", [Val::Object(kvs)]) => {
                        let mut ms: Vec<(String, TId)> = vec![];
                        for (k, x) in kvs {
                            let t = self.as_type(x)?;
                            if let Some(e) = ms.iter_mut().find(|e| e.0 == *k) {
                                e.1 = t;
                            } else {
                                ms.push((k.clone(), t));
                            }
                        }
                        ms.sort_by(|a, b| a.0.cmp(&b.0));
                        Node::Service(ms)
                    }
                    (c, a) => return err(format!("IDL.{c} called with {} unsupported arguments", a.len())),
                };
                Ok(Val::Type(self.graph.add(node)))
            }
            Tok::Ident(name) => {
                let v = self.lookup(&name, scope, declared)?;
                // member call?
                if matches!(self.peek(), Tok::Punct(".")) {
                    self.next();
                    let m = match self.next() {
                        Tok::Ident(m) => m,
                        other => return err(format!("expected member name, found {other:?}")),
                    };
                    let args = self.args(scope, declared)?;
                    let t = self.as_type(&v)?;
                    match (m.as_str(), args.as_slice()) {
                        ("fill", [a]) => {
                            let src = self.as_type(a)?;
                            match self.unfilled.iter().position(|u| *u == t) {
                                Some(i) => {
                                    self.unfilled.remove(i);
                                }
                                None => return err(format!("{name}.fill: not an unfilled IDL.Rec()")),
                            }
                            // a Rec node denotes the type it is filled with: alias by copying the node
                            // (filling with another still-empty Rec is not supported by the library either)
                            if matches!(self.graph.nodes[src], Node::Hole) {
                                return err(format!("{name}.fill with an unfilled Rec"));
                            }
                            self.graph.nodes[t] = self.graph.nodes[src].clone();
                            Ok(Val::Type(t))
                        }
                        ("getType", []) => {
                            if matches!(self.graph.nodes[t], Node::Hole) {
                                return err(format!("{name}.getType() before fill"));
                            }
                            Ok(Val::Type(t))
                        }
                        (other, _) => err(format!("unsupported member {other}")),
                    }
                } else {
                    Ok(v)
                }
            }
            other => err(format!("unexpected token {other:?} in expression")),
        }
    }

    pub fn unfilled_count(&self) -> usize {
        self.unfilled.len()
    }
}

#[cfg(test)]
mod tests {
    use super::*;
    #[test]
    fn basic() {
        let src = "export const idlFactory = ({ IDL }) => {\n  const A = IDL.Rec();\n  A.fill(IDL.Opt(A));\n  const B = IDL.Record({ 'a' : IDL.Nat, _5_ : IDL.Text });\n  return IDL.Service({ 'm' : IDL.Func([B], [], ['query']) });\n};\nexport const init = ({ IDL }) => { return [IDL.Nat]; };";
        let mut i = Interp::new(src).unwrap();
        let ex = i.run().unwrap();
        assert_eq!(ex.len(), 2);
        assert!(Interp::new("export const f = ({ IDL }) => { return default; };").unwrap().run().is_err());
        assert!(Interp::new("export const f = ({ IDL }) => { const A = B; const B = IDL.Nat; return A; };").unwrap().run().is_err());
        assert!(lex("'\\01'").is_err());
        assert!(lex("'\\0a'").is_ok());
    }
}
