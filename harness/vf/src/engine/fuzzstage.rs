//! Coverage-guided stage of the thorough tier: the libFuzzer binary
//! `harness/fuzz` (target `vfcase`) mutates the entropy buffer of the check's
//! case function under coverage feedback from the instrumented candid crates
//! (and AddressSanitizer). `./check` builds the binary and passes its path in
//! VF_FUZZ_BIN; without it the stage is skipped and the evidence says so.
//!
//! Several independent libFuzzer processes run with seeds derived from
//! VERIF_SEED, each from a fresh corpus of random entropy buffers (libFuzzer
//! grows inputs slowly from an empty corpus) with `-len_control=0` and a fixed
//! number of runs. A semantic failure is reported by the target itself (replay
//! file + VIOLATION line); a process that dies without one (sanitizer report,
//! stack overflow) has its artifact re-run under the ordinary strict replay and
//! is a violation only if it fails there too; time-outs and out-of-memory are
//! inconclusive notes.

use serde_json::{json, Value};
use std::io::Read;
use std::path::{Path, PathBuf};
use std::process::{Command, Stdio};
use std::time::Instant;

pub struct FuzzOutcome {
    pub summary: Value,
    /// (signature, replay path)
    pub violation: Option<(String, PathBuf)>,
    pub notes: Vec<String>,
    pub runs: u64,
}

fn splitmix(x: &mut u64) -> u64 {
    *x = x.wrapping_add(0x9e37_79b9_7f4a_7c15);
    let mut z = *x;
    z = (z ^ (z >> 30)).wrapping_mul(0xbf58_476d_1ce4_e5b9);
    z = (z ^ (z >> 27)).wrapping_mul(0x94d0_49bb_1331_11eb);
    z ^ (z >> 31)
}

fn seed_corpus(dir: &Path, seed: u64, max_len: usize) {
    let _ = std::fs::create_dir_all(dir);
    let mut s = seed ^ 0xc0_7b_05;
    for i in 0..48 {
        let len = match i % 4 {
            0 => 16,
            1 => 64,
            2 => max_len / 4,
            _ => max_len,
        }
        .max(1);
        let mut b = Vec::with_capacity(len);
        while b.len() < len {
            b.extend_from_slice(&splitmix(&mut s).to_le_bytes());
        }
        b.truncate(len);
        let _ = std::fs::write(dir.join(format!("seed-{i:02}")), b);
    }
}

fn grab(text: &str, key: &str) -> Option<u64> {
    // "stat::number_of_executed_units: 12345"
    text.lines().rev().find_map(|l| l.trim().strip_prefix(key).and_then(|r| r.trim().parse().ok()))
}

fn last_cov(text: &str) -> (u64, u64, u64) {
    // "#12345 DONE   cov: 5123 ft: 20011 corp: 800/120Kb ..."
    for l in text.lines().rev() {
        if l.starts_with('#') && l.contains(" cov: ") {
            let num = |k: &str| -> u64 {
                l.split(k).nth(1).and_then(|r| r.trim_start().split(|c: char| !c.is_ascii_digit()).next()).and_then(|d| d.parse().ok()).unwrap_or(0)
            };
            return (num(" cov: "), num(" ft: "), num(" corp: "));
        }
    }
    (0, 0, 0)
}

pub fn run(id: &str, bin: &Path, seed: u64, procs: usize, runs_per_proc: u64, max_len: usize, max_secs: u64) -> FuzzOutcome {
    let t0 = Instant::now();
    let base = super::verif_root().join(".scratch").join("fuzz").join(id);
    let _ = std::fs::remove_dir_all(&base);
    let mut children = vec![];
    for p in 0..procs {
        let dir = base.join(format!("p{p}"));
        let corpus = dir.join("corpus");
        let pseed = seed.wrapping_mul(1_000_003).wrapping_add(p as u64 + 1) & 0x7fff_ffff;
        seed_corpus(&corpus, pseed, max_len);
        let art = dir.join("artifacts");
        let _ = std::fs::create_dir_all(&art);
        let child = Command::new(bin)
            .env("VF_FUZZ_ID", id)
            .env("RUST_BACKTRACE", "0")
            .env("ASAN_OPTIONS", "detect_leaks=0:allocator_may_return_null=1:malloc_context_size=0")
            .arg(&corpus)
            .arg(format!("-runs={runs_per_proc}"))
            .arg(format!("-seed={}", pseed.max(1)))
            .arg(format!("-max_len={max_len}"))
            .arg("-len_control=0")
            .arg("-rss_limit_mb=6000")
            .arg("-malloc_limit_mb=4096")
            .arg("-timeout=300")
            .arg(format!("-max_total_time={max_secs}"))
            .arg("-print_final_stats=1")
            .arg("-verbosity=1")
            .arg(format!("-artifact_prefix={}/", art.display()))
            .stdout(Stdio::piped())
            .stderr(Stdio::piped())
            .spawn();
        match child {
            Ok(c) => children.push((p, dir, c)),
            Err(e) => {
                return FuzzOutcome { summary: json!({"ran": false, "why": format!("cannot start {}: {e}", bin.display())}), violation: None, notes: vec![format!("fuzz stage: cannot start: {e}")], runs: 0 }
            }
        }
    }
    let mut total_runs = 0u64;
    let mut max_cov = 0u64;
    let mut max_ft = 0u64;
    let mut corp = 0u64;
    let mut violation: Option<(String, PathBuf)> = None;
    let mut notes = vec![];
    let mut per_proc = vec![];
    for (p, dir, mut c) in children {
        // read both pipes on threads so that neither fills up
        let mut so = c.stdout.take().unwrap();
        let mut se = c.stderr.take().unwrap();
        let h1 = std::thread::spawn(move || {
            let mut s = Vec::new();
            let _ = so.read_to_end(&mut s);
            String::from_utf8_lossy(&s).to_string()
        });
        let h2 = std::thread::spawn(move || {
            let mut s = Vec::new();
            let _ = se.read_to_end(&mut s);
            String::from_utf8_lossy(&s).to_string()
        });
        let status = c.wait();
        let out = h1.join().unwrap_or_default();
        let err = h2.join().unwrap_or_default();
        let runs = grab(&err, "stat::number_of_executed_units:").unwrap_or(0);
        let (cov, ft, cp) = last_cov(&err);
        total_runs += runs;
        max_cov = max_cov.max(cov);
        max_ft = max_ft.max(ft);
        corp += cp;
        let ok = status.as_ref().map(|s| s.success()).unwrap_or(false);
        per_proc.push(json!({"proc": p, "runs": runs, "cov": cov, "ft": ft, "corpus": cp, "exit_ok": ok}));
        if ok {
            continue;
        }
        // a semantic failure reported by the target
        if let Some(l) = out.lines().find(|l| l.starts_with("VIOLATION property=")) {
            let path = l.split("replay=").nth(1).unwrap_or("").trim().to_string();
            let sig = err.lines().find_map(|l| l.strip_prefix("FAILURE sig=")).unwrap_or("?").split(" profile=").next().unwrap_or("?").to_string();
            if violation.is_none() {
                let detail: String = err.lines().skip_while(|l| !l.starts_with("FAILURE sig=")).take(12).collect::<Vec<_>>().join("\n");
                eprintln!("{detail}");
                violation = Some((sig, PathBuf::from(path)));
            }
            continue;
        }
        // died otherwise: classify
        let art = dir.join("artifacts");
        let arts: Vec<PathBuf> = std::fs::read_dir(&art).map(|r| r.filter_map(|e| e.ok().map(|e| e.path())).collect()).unwrap_or_default();
        let kind = if err.contains("ERROR: libFuzzer: timeout") {
            "timeout"
        } else if err.contains("out-of-memory") || err.contains("malloc limit") {
            "out-of-memory"
        } else if err.contains("ERROR: AddressSanitizer") {
            "address-sanitizer"
        } else {
            "died"
        };
        if kind == "timeout" || kind == "out-of-memory" {
            notes.push(format!("fuzz stage: process {p} stopped by libFuzzer ({kind}); inconclusive for that input"));
            continue;
        }
        // re-run the artifact under the ordinary strict replay in a child process
        let mut confirmed = false;
        for a in &arts {
            if let Ok(data) = std::fs::read(a) {
                let v = super::driver::Violation { sig: format!("fuzz-{kind}"), msg: format!("libFuzzer process {kind}; stderr tail:\n{}", err.lines().rev().take(25).collect::<Vec<_>>().into_iter().rev().collect::<Vec<_>>().join("\n")), kind: super::worker::KIND_ENTROPY, data, detail: vec![], profile: "fuzz".into() };
                let path = super::driver::write_replay(id, &v);
                let exe = std::env::current_exe().unwrap_or_else(|_| PathBuf::from("vf"));
                let st = Command::new(exe).arg("replay").arg(id).arg(&path).arg("--quiet").stdout(Stdio::null()).stderr(Stdio::null()).status();
                let failed = match st {
                    Ok(s) => s.code() == Some(1) || s.code().is_none(),
                    Err(_) => false,
                };
                if failed || kind == "address-sanitizer" {
                    confirmed = true;
                    if violation.is_none() {
                        eprintln!("FAILURE sig=fuzz-{kind} profile=fuzz\n  {}", v.msg.replace('\n', "\n  "));
                        violation = Some((format!("fuzz-{kind}"), path));
                    }
                } else {
                    let _ = std::fs::remove_file(&path);
                }
            }
        }
        if !confirmed {
            notes.push(format!("fuzz stage: process {p} {kind} without a reproducible failing input; inconclusive"));
        }
    }
    let summary = json!({
        "ran": true,
        "engine": "libFuzzer (cargo-fuzz, AddressSanitizer, coverage of candid/candid_parser/ic_principal) over the same case function",
        "processes": procs,
        "runs_per_process": runs_per_proc,
        "executions": total_runs,
        "max_edge_coverage": max_cov,
        "max_features": max_ft,
        "corpus_units": corp,
        "max_len": max_len,
        "wall_s": t0.elapsed().as_secs_f64(),
        "per_process": per_proc,
    });
    let _ = std::fs::remove_dir_all(&base);
    FuzzOutcome { summary, violation, notes, runs: total_runs }
}
