//! Panic capture: a process-wide hook records location and message in a
//! thread-local instead of printing; `guard` runs a closure and turns a panic
//! into a value.

use std::cell::RefCell;
use std::panic::{catch_unwind, AssertUnwindSafe};
use std::sync::Once;

#[derive(Clone, Debug)]
pub struct PanicInfo {
    pub location: String, // file:line
    pub message: String,
}
impl PanicInfo {
    /// Stable signature: file (repo-relative) + line + first words of message.
    pub fn sig(&self) -> String {
        let mut loc = self.location.trim_start_matches("/repo/").to_string();
        // generated parser: the build directory name carries a hash and the line shifts
        if let Some(i) = loc.find("/out/grammar.rs") {
            let _ = i;
            loc = "candid_parser/grammar.rs(generated)".to_string();
        }
        let mut m: String = self.message.chars().take(48).collect();
        // numbers in messages vary with the input; blank them
        m = m
            .chars()
            .map(|c| if c.is_ascii_digit() { '#' } else { c })
            .collect();
        format!("panic@{}:{}", loc, m)
    }
    pub fn in_harness(&self) -> bool {
        self.location.contains("/verif/") || self.location.starts_with("src/")
    }
}

thread_local! {
    static LAST: RefCell<Option<PanicInfo>> = const { RefCell::new(None) };
}

static INSTALL: Once = Once::new();

pub fn install_hook() {
    INSTALL.call_once(|| {
        std::panic::set_hook(Box::new(|info| {
            let location = info
                .location()
                .map(|l| format!("{}:{}", l.file(), l.line()))
                .unwrap_or_else(|| "?".to_string());
            let message = if let Some(s) = info.payload().downcast_ref::<&str>() {
                s.to_string()
            } else if let Some(s) = info.payload().downcast_ref::<String>() {
                s.clone()
            } else {
                "<non-string panic>".to_string()
            };
            if std::env::var_os("VF_PRINT_PANICS").is_some() {
                eprintln!("[panic] {} : {}", location, message);
            }
            LAST.with(|l| *l.borrow_mut() = Some(PanicInfo { location, message }));
        }));
    });
}

/// Run `f`; a panic becomes `Err(PanicInfo)`.
pub fn guard<T>(f: impl FnOnce() -> T) -> Result<T, PanicInfo> {
    install_hook();
    LAST.with(|l| *l.borrow_mut() = None);
    match catch_unwind(AssertUnwindSafe(f)) {
        Ok(v) => Ok(v),
        Err(_) => Err(LAST.with(|l| l.borrow_mut().take()).unwrap_or(PanicInfo {
            location: "?".into(),
            message: "panic (no info)".into(),
        })),
    }
}
