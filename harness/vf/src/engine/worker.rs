//! Worker process: runs one shard of a check (regressions, enumerated part,
//! proptest search with shrinking) and writes its statistics and, if any, the
//! shrunk failing case.

use super::known::Known;
use super::panics;
use super::{Check, Ctx, Failure, Outcome, Tier};
use proptest::collection::vec;
use proptest::prelude::any;
use proptest::test_runner::{
    Config, RngAlgorithm, RngSeed, TestCaseError, TestError, TestRng, TestRunner,
};
use serde_json::json;
use std::cell::RefCell;
use std::os::unix::fs::FileExt;
use std::path::{Path, PathBuf};

pub struct WorkerArgs {
    pub id: String,
    pub tier: Tier,
    pub seed: u64,
    pub shard: u64,
    pub nshards: u64,
    pub cases: u64,
    pub out: PathBuf,
    pub skip_enum: bool,
}

/// Record the case about to run, so the parent can attribute a process death.
pub struct CurFile(Option<std::fs::File>);
impl CurFile {
    pub fn open(path: &Path) -> CurFile {
        CurFile(std::fs::File::create(path).ok())
    }
    pub fn none() -> CurFile {
        CurFile(None)
    }
    pub fn record(&self, kind: u8, data: &[u8]) {
        if let Some(f) = &self.0 {
            let mut buf = Vec::with_capacity(data.len() + 9);
            buf.push(kind);
            buf.extend_from_slice(&(data.len() as u64).to_le_bytes());
            buf.extend_from_slice(data);
            let _ = f.write_at(&buf, 0);
        }
    }
    pub fn clear(&self) {
        self.record(0xff, &[]);
    }
}
pub fn read_cur(path: &Path) -> Option<(u8, Vec<u8>)> {
    let b = std::fs::read(path).ok()?;
    if b.len() < 9 {
        return None;
    }
    let kind = b[0];
    let len = u64::from_le_bytes(b[1..9].try_into().ok()?) as usize;
    if kind == 0xff || b.len() < 9 + len {
        return None;
    }
    Some((kind, b[9..9 + len].to_vec()))
}

pub const KIND_ENTROPY: u8 = 0;
pub const KIND_DIRECT: u8 = 1;

/// Run one case with panic capture. A panic that escapes the check's own
/// guards is a failure located at the panic site (or harness trouble if the
/// site is in the harness).
pub fn run_case(check: &dyn Check, kind: u8, data: &[u8], ctx: &mut Ctx) -> Outcome {
    ctx.begin_case();
    let r = panics::guard(|| match kind {
        KIND_DIRECT => check.direct_case(data, ctx),
        _ => check.one_case(data, ctx),
    });
    match r {
        Ok(o) => o,
        Err(p) => {
            if p.in_harness() {
                Outcome::Fail(Failure::new(
                    format!("HARNESS-{}", p.sig()),
                    format!("harness panic at {}: {}", p.location, p.message),
                ))
            } else {
                Outcome::Fail(Failure::new(
                    p.sig(),
                    format!("panic at {}: {}", p.location, p.message),
                ))
            }
        }
    }
}

pub struct Found {
    pub kind: u8,
    pub data: Vec<u8>,
    pub failure: Failure,
    pub detail: Vec<String>,
}

fn shard_seed(seed: u64, shard: u64, id: &str) -> [u8; 32] {
    let mut s = [0u8; 32];
    s[..8].copy_from_slice(&seed.to_le_bytes());
    s[8..16].copy_from_slice(&shard.to_le_bytes());
    let h = super::digest_str(id);
    s[16..24].copy_from_slice(&h.to_le_bytes());
    s[24..32].copy_from_slice(&0x5eed_5eed_5eed_5eedu64.to_le_bytes());
    s
}

pub fn run_shard(check: &dyn Check, a: &WorkerArgs, cur: &CurFile) -> (Ctx, Option<Found>) {
    let known = Known::load();
    let id = check.id();
    let ctx = RefCell::new(Ctx::new(a.tier, false));
    let mut found: Option<Found> = None;

    // 1. enumerated part
    if !a.skip_enum {
        let mut emit = |data: &[u8]| -> bool {
            let mut c = ctx.borrow_mut();
            cur.record(KIND_DIRECT, data);
            let out = run_case(check, KIND_DIRECT, data, &mut c);
            match out {
                Outcome::Fail(f) => {
                    c.stats.evaluations += 1;
                    if let Some(k) = known.matches(id, &f.sig) {
                        *c.stats.known.entry(k.id.clone()).or_insert(0) += 1;
                        true
                    } else {
                        found = Some(Found {
                            kind: KIND_DIRECT,
                            data: data.to_vec(),
                            failure: f,
                            detail: vec![],
                        });
                        false
                    }
                }
                o => {
                    c.end_case(&o);
                    true
                }
            }
        };
        check.enumerate(a.tier, a.shard, a.nshards, &mut emit);
        cur.clear();
    }
    if let Some(f) = &mut found {
        // decode detail for the report
        let mut c = Ctx::new(a.tier, true);
        c.verbose = true;
        let _ = run_case(check, f.kind, &f.data, &mut c);
        f.detail = c.log;
        return (ctx.into_inner(), found);
    }

    // 2. proptest search
    if a.cases > 0 {
        let config = Config {
            cases: a.cases.min(u32::MAX as u64) as u32,
            failure_persistence: None,
            max_shrink_iters: 3_000,
            max_shrink_time: 0,
            max_global_rejects: 1 << 30,
            max_local_rejects: 1 << 30,
            rng_seed: RngSeed::Fixed(a.seed),
            verbose: 0,
            ..Config::default()
        };
        let rng = TestRng::from_seed(RngAlgorithm::ChaCha, &shard_seed(a.seed, a.shard, id));
        let mut runner = TestRunner::new_with_rng(config, rng);
        let strat = vec(any::<u8>(), 0..check.max_len());
        let result = runner.run(&strat, |bytes| {
            let mut c = ctx.borrow_mut();
            cur.record(KIND_ENTROPY, &bytes);
            let out = run_case(check, KIND_ENTROPY, &bytes, &mut c);
            match out {
                Outcome::Fail(f) => {
                    if let Some(k) = known.matches(id, &f.sig) {
                        if !c.stats.frozen {
                            *c.stats.known.entry(k.id.clone()).or_insert(0) += 1;
                            c.stats.evaluations += 1;
                        }
                        Ok(())
                    } else {
                        if !c.stats.frozen {
                            c.stats.evaluations += 1;
                        }
                        c.stats.frozen = true;
                        Err(TestCaseError::fail(f.sig))
                    }
                }
                o => {
                    c.end_case(&o);
                    Ok(())
                }
            }
        });
        cur.clear();
        match result {
            Ok(()) => {}
            Err(TestError::Fail(_, bytes)) => {
                let mut c = Ctx::new(a.tier, false);
                c.verbose = true;
                let out = run_case(check, KIND_ENTROPY, &bytes, &mut c);
                let failure = match out {
                    Outcome::Fail(f) => f,
                    _ => Failure::new(
                        "FLAKY",
                        "shrunk case did not fail again when re-run (non-deterministic check?)",
                    ),
                };
                found = Some(Found {
                    kind: KIND_ENTROPY,
                    data: bytes,
                    failure,
                    detail: c.log,
                });
            }
            Err(TestError::Abort(r)) => {
                found = Some(Found {
                    kind: KIND_ENTROPY,
                    data: vec![],
                    failure: Failure::new("HARNESS-abort", format!("proptest aborted: {r}")),
                    detail: vec![],
                });
            }
        }
    }
    (ctx.into_inner(), found)
}

pub fn write_result(a: &WorkerArgs, ctx: &Ctx, found: &Option<Found>) {
    let st = &ctx.stats;
    let mut digests: Vec<u8> = Vec::with_capacity(st.digests.len() * 8);
    for d in &st.digests {
        digests.extend_from_slice(&d.to_le_bytes());
    }
    let _ = std::fs::write(a.out.join(format!("shard-{}.digests", a.shard)), digests);
    let j = json!({
        "shard": a.shard,
        "evaluations": st.evaluations,
        "nontrivial": st.nontrivial,
        "classes": st.classes,
        "skipped": st.skipped,
        "known": st.known,
        "notes": st.notes,
        "samples": st.samples.iter().map(|(c, s)| json!({"class": c, "case": s})).collect::<Vec<_>>(),
        "found": found.as_ref().map(|f| json!({
            "kind": f.kind,
            "hex": hex::encode(&f.data),
            "sig": f.failure.sig,
            "msg": f.failure.msg,
            "detail": f.detail,
        })),
    });
    let _ = std::fs::write(
        a.out.join(format!("shard-{}.json", a.shard)),
        serde_json::to_vec_pretty(&j).unwrap(),
    );
}

pub fn worker_main(check: Box<dyn Check>, a: WorkerArgs) -> i32 {
    panics::install_hook();
    super::alloc::set_cap(6 << 30);
    let stack = check.stack_bytes();
    let handle = std::thread::Builder::new()
        .name("vf-worker".into())
        .stack_size(stack)
        .spawn(move || {
            let cur = CurFile::open(&a.out.join(format!("shard-{}.cur", a.shard)));
            let (ctx, found) = run_shard(check.as_ref(), &a, &cur);
            write_result(&a, &ctx, &found);
            if found.is_some() {
                1
            } else {
                0
            }
        })
        .expect("spawn worker thread");
    handle.join().unwrap_or(2)
}
