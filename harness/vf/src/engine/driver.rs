//! Parent process: shards a check over worker processes, attributes crashes,
//! merges statistics, writes evidence and replay files, prints the verdict.

use super::evidence;
use super::known::Known;
use super::worker::{self, KIND_DIRECT, KIND_ENTROPY};
use super::{Check, Ctx, Outcome, Tier};
use serde_json::{json, Value};
use std::collections::{BTreeMap, HashSet};
use std::os::unix::process::ExitStatusExt;
use std::path::{Path, PathBuf};
use std::process::{Child, Command, Stdio};
use std::time::{Duration, Instant};

pub struct RunArgs {
    pub id: String,
    pub tier: Tier,
    pub seed: u64,
    pub cases_override: Option<u64>,
}

#[derive(Default)]
pub struct Merged {
    pub evaluations: u64,
    pub nontrivial: u64,
    pub digests: HashSet<u64>,
    pub classes: BTreeMap<String, u64>,
    pub skipped: BTreeMap<String, u64>,
    pub known: BTreeMap<String, u64>,
    pub notes: BTreeMap<String, i64>,
    pub samples: Vec<Value>,
    pub engines: Vec<String>,
    /// summary of the libFuzzer stage, when it ran
    pub fuzz: Option<Value>,
}

pub struct Violation {
    pub sig: String,
    pub msg: String,
    pub kind: u8,
    pub data: Vec<u8>,
    pub detail: Vec<String>,
    pub profile: String,
}

fn scratch_dir(id: &str, tier: Tier) -> PathBuf {
    let d = super::verif_root()
        .join(".scratch")
        .join(format!("{}-{}-{}", id, tier.name(), std::process::id()));
    let _ = std::fs::remove_dir_all(&d);
    std::fs::create_dir_all(&d).expect("create scratch dir");
    d
}

fn merge_shard(m: &mut Merged, dir: &Path, shard: u64) -> Option<Violation> {
    let p = dir.join(format!("shard-{shard}.json"));
    let v: Value = serde_json::from_slice(&std::fs::read(&p).ok()?).ok()?;
    m.evaluations += v["evaluations"].as_u64().unwrap_or(0);
    m.nontrivial += v["nontrivial"].as_u64().unwrap_or(0);
    for (key, dst) in [
        ("classes", &mut m.classes),
        ("skipped", &mut m.skipped),
        ("known", &mut m.known),
    ] {
        if let Some(o) = v[key].as_object() {
            for (k, n) in o {
                *dst.entry(k.clone()).or_insert(0) += n.as_u64().unwrap_or(0);
            }
        }
    }
    if let Some(o) = v["notes"].as_object() {
        for (k, n) in o {
            let n = n.as_i64().unwrap_or(0);
            let e = m.notes.entry(k.clone()).or_insert(if k.starts_with("max_") { i64::MIN } else { 0 });
            if k.starts_with("max_") {
                if n > *e {
                    *e = n;
                }
            } else {
                *e += n;
            }
        }
    }
    if let Some(a) = v["samples"].as_array() {
        for s in a {
            // keep at most 2 per class, 16 total
            let class = s["class"].as_str().unwrap_or("-");
            let have = m
                .samples
                .iter()
                .filter(|x| x["class"].as_str() == Some(class))
                .count();
            if have < 2 && m.samples.len() < 16 {
                m.samples.push(s.clone());
            }
        }
    }
    if let Ok(b) = std::fs::read(dir.join(format!("shard-{shard}.digests"))) {
        for c in b.chunks_exact(8) {
            m.digests.insert(u64::from_le_bytes(c.try_into().unwrap()));
        }
    }
    let f = &v["found"];
    if f.is_object() {
        return Some(Violation {
            sig: f["sig"].as_str().unwrap_or("?").to_string(),
            msg: f["msg"].as_str().unwrap_or("?").to_string(),
            kind: f["kind"].as_u64().unwrap_or(0) as u8,
            data: hex::decode(f["hex"].as_str().unwrap_or("")).unwrap_or_default(),
            detail: f["detail"]
                .as_array()
                .map(|a| a.iter().filter_map(|x| x.as_str().map(String::from)).collect())
                .unwrap_or_default(),
            profile: String::new(),
        });
    }
    None
}

pub fn write_replay(id: &str, v: &Violation) -> PathBuf {
    let dir = super::verif_root().join("replays").join(id);
    let _ = std::fs::create_dir_all(&dir);
    let name = format!("{:016x}.json", super::digest_of(&v.data) ^ super::digest_str(&v.sig));
    let path = dir.join(name);
    let j = json!({
        "property": id,
        "kind": if v.kind == KIND_DIRECT { "direct" } else { "entropy" },
        "hex": hex::encode(&v.data),
        "sig": v.sig,
        "msg": v.msg,
        "profile": v.profile,
        "decoded": v.detail,
    });
    let _ = std::fs::write(&path, serde_json::to_vec_pretty(&j).unwrap());
    path
}

pub fn read_replay(path: &Path) -> Result<(String, u8, Vec<u8>, Value), String> {
    let b = std::fs::read(path).map_err(|e| format!("read {}: {e}", path.display()))?;
    let v: Value = serde_json::from_slice(&b).map_err(|e| format!("parse: {e}"))?;
    let kind = match v["kind"].as_str() {
        Some("direct") => KIND_DIRECT,
        _ => KIND_ENTROPY,
    };
    let data = hex::decode(v["hex"].as_str().unwrap_or("")).map_err(|e| format!("hex: {e}"))?;
    Ok((
        v["property"].as_str().unwrap_or("").to_string(),
        kind,
        data,
        v,
    ))
}

struct Job {
    child: Child,
    shard: u64,
    dir: PathBuf,
    profile: String,
}

fn spawn_workers(
    exe: &Path,
    a: &RunArgs,
    check: &dyn Check,
    dir: &Path,
    profile: &str,
    cases: u64,
) -> Vec<Job> {
    let n = check.workers().max(1) as u64;
    let mut jobs = vec![];
    for shard in 0..n {
        let share = cases / n + if shard < cases % n { 1 } else { 0 };
        let child = Command::new(exe)
            .arg("worker")
            .arg(&a.id)
            .arg("--tier")
            .arg(a.tier.name())
            .arg("--seed")
            .arg(a.seed.to_string())
            .arg("--shard")
            .arg(shard.to_string())
            .arg("--nshards")
            .arg(n.to_string())
            .arg("--cases")
            .arg(share.to_string())
            .arg("--out")
            .arg(dir)
            .env("RUST_BACKTRACE", "0")
            .env("RUST_LIB_BACKTRACE", "0")
            .stdin(Stdio::null())
            .spawn()
            .expect("spawn worker");
        jobs.push(Job {
            child,
            shard,
            dir: dir.to_path_buf(),
            profile: profile.to_string(),
        });
    }
    jobs
}

pub fn signal_name(sig: i32) -> String {
    match sig {
        libc::SIGSEGV => "SIGSEGV".into(),
        libc::SIGABRT => "SIGABRT".into(),
        libc::SIGBUS => "SIGBUS".into(),
        libc::SIGILL => "SIGILL".into(),
        libc::SIGKILL => "SIGKILL".into(),
        libc::SIGFPE => "SIGFPE".into(),
        n => format!("signal{n}"),
    }
}

/// Re-run one input in a fresh child; returns Some(signal) if it dies again.
fn confirm_crash(exe: &Path, id: &str, kind: u8, data: &[u8], dir: &Path) -> Option<i32> {
    let p = dir.join("crash-candidate.json");
    let j = json!({"property": id, "kind": if kind == KIND_DIRECT {"direct"} else {"entropy"}, "hex": hex::encode(data)});
    std::fs::write(&p, serde_json::to_vec(&j).unwrap()).ok()?;
    let st = Command::new(exe)
        .arg("replay")
        .arg(id)
        .arg(&p)
        .env("RUST_BACKTRACE", "0")
        .stdout(Stdio::null())
        .stderr(Stdio::null())
        .status()
        .ok()?;
    st.signal()
}

pub fn run(a: RunArgs) -> i32 {
    let check = match super::find_check(&a.id) {
        Some(c) => c,
        None => {
            eprintln!("vf: unknown property {}", a.id);
            return 2;
        }
    };
    let id = check.id().to_string();
    let t0 = Instant::now();
    let known = Known::load();
    let exe = std::env::current_exe().expect("current_exe");
    let dir = scratch_dir(&id, a.tier);
    let cases = a.cases_override.unwrap_or_else(|| check.cases(a.tier));
    let watchdog = std::env::var("VF_WATCHDOG_S")
        .ok()
        .and_then(|s| s.parse().ok())
        .unwrap_or(match a.tier {
            Tier::Quick => 1500u64,
            Tier::Thorough => 4 * 3600,
        });

    let mut merged = Merged::default();
    let mut violation: Option<Violation> = None;
    let mut infra: Vec<String> = vec![];

    // regressions (fixed findings must pass; open ones must still fail)
    let reg = run_regressions(&exe, &id, &known);
    merged.engines.push(format!(
        "regression replays: {} run, {} as expected",
        reg.total, reg.ok
    ));
    if let Some(v) = reg.violation {
        violation = Some(v);
    }
    for s in reg.stale {
        println!("NOTE: {s}");
    }

    let mut profiles: Vec<(String, PathBuf)> = vec![("verif".to_string(), exe.clone())];
    if check.both_profiles() {
        match std::env::var("VF_REL_BIN") {
            Ok(p) if Path::new(&p).exists() => profiles.push(("verifrel".to_string(), p.into())),
            _ => infra.push("VF_REL_BIN not set or missing: release-profile pass skipped".into()),
        }
    }

    if violation.is_none() {
        'profiles: for (pname, pexe) in &profiles {
            let pdir = dir.join(pname);
            std::fs::create_dir_all(&pdir).unwrap();
            let mut jobs = spawn_workers(pexe, &a, check.as_ref(), &pdir, pname, cases);
            // wait with watchdog
            let mut done: Vec<Option<std::process::ExitStatus>> = vec![None; jobs.len()];
            loop {
                let mut all = true;
                for (i, j) in jobs.iter_mut().enumerate() {
                    if done[i].is_none() {
                        match j.child.try_wait() {
                            Ok(Some(st)) => done[i] = Some(st),
                            Ok(None) => all = false,
                            Err(_) => all = false,
                        }
                    }
                }
                if all {
                    break;
                }
                if t0.elapsed() > Duration::from_secs(watchdog) {
                    for j in jobs.iter_mut() {
                        let _ = j.child.kill();
                        let _ = j.child.wait();
                    }
                    infra.push(format!("watchdog: run exceeded {watchdog} s; inconclusive"));
                    break 'profiles;
                }
                std::thread::sleep(Duration::from_millis(20));
            }
            let mut shard_cases = 0u64;
            for (i, j) in jobs.iter().enumerate() {
                let st = done[i].unwrap();
                let before = merged.evaluations;
                let found = merge_shard(&mut merged, &j.dir, j.shard);
                shard_cases += merged.evaluations - before;
                if let Some(mut v) = found {
                    v.profile = j.profile.clone();
                    if violation.is_none() {
                        violation = Some(v);
                    }
                    continue;
                }
                if let Some(sig) = st.signal() {
                    let cur = worker::read_cur(&j.dir.join(format!("shard-{}.cur", j.shard)));
                    match cur {
                        Some((kind, data)) => {
                            match confirm_crash(pexe, &id, kind, &data, &j.dir) {
                                Some(s2) => {
                                    let fsig = format!("crash:{}", signal_name(s2));
                                    if let Some(k) = known.matches(&id, &fsig) {
                                        *merged.known.entry(k.id.clone()).or_insert(0) += 1;
                                        infra.push(format!("shard {} stopped early on known crash {}", j.shard, k.id));
                                    } else if violation.is_none() {
                                        violation = Some(Violation {
                                            sig: fsig,
                                            msg: format!("process died with {} on this input (profile {})", signal_name(s2), j.profile),
                                            kind,
                                            data,
                                            detail: vec![],
                                            profile: j.profile.clone(),
                                        });
                                    }
                                }
                                None => infra.push(format!(
                                    "shard {} died with {} but the recorded input does not reproduce it",
                                    j.shard,
                                    signal_name(sig)
                                )),
                            }
                        }
                        None => infra.push(format!(
                            "shard {} died with {} outside any case",
                            j.shard,
                            signal_name(sig)
                        )),
                    }
                } else if st.code() != Some(0) {
                    infra.push(format!("shard {} exited with {:?} without a result", j.shard, st.code()));
                }
            }
            merged.engines.push(format!(
                "proptest 1.11 + enumerated families, profile {pname}: {} cases over {} worker processes (budget {} generated cases)",
                shard_cases, jobs.len(), cases
            ));
            if violation.is_some() {
                break;
            }
        }
    }

    // coverage-guided stage (thorough tier only; see engine/fuzzstage.rs)
    if a.tier == Tier::Thorough && violation.is_none() && infra.is_empty() {
        match std::env::var("VF_FUZZ_BIN") {
            Ok(p) if Path::new(&p).exists() => {
                let runs = std::env::var("VF_FUZZ_RUNS").ok().and_then(|s| s.parse().ok()).unwrap_or_else(|| check.fuzz_runs());
                let out = super::fuzzstage::run(&id, Path::new(&p), a.seed, check.workers().min(16), runs, check.max_len(), 900);
                merged.engines.push(format!(
                    "libFuzzer stage: {} executions over {} processes ({} runs each, ASan, max_len {})",
                    out.runs,
                    check.workers().min(16),
                    runs,
                    check.max_len()
                ));
                merged.fuzz = Some(out.summary);
                for n in out.notes {
                    merged.engines.push(n);
                }
                if let Some((sig, path)) = out.violation {
                    // the replay file is already written; read it back for the report
                    if let Ok((_, kind, data, v)) = read_replay(&path) {
                        violation = Some(Violation {
                            sig,
                            msg: v["msg"].as_str().unwrap_or("").to_string(),
                            kind,
                            data,
                            detail: vec![],
                            profile: "fuzz".into(),
                        });
                    }
                }
            }
            _ => merged.engines.push("libFuzzer stage: skipped (VF_FUZZ_BIN not set: the fuzz binary was not built)".into()),
        }
    }

    // verdict
    let wall = t0.elapsed().as_secs_f64();
    let mut exit = 0;
    let mut replay_path = None;
    if let Some(v) = &violation {
        if v.sig.starts_with("HARNESS-") || v.sig == "FLAKY" {
            infra.push(format!("harness trouble: {} — {}", v.sig, v.msg));
            let p = write_replay(&id, v);
            infra.push(format!("input kept at {}", p.display()));
        } else {
            let p = write_replay(&id, v);
            replay_path = Some(p);
            exit = 1;
        }
    }
    let real_violation = exit == 1;
    if !infra.is_empty() && exit == 0 {
        exit = 2;
    }
    evidence::write(
        check.as_ref(),
        &a,
        &merged,
        wall,
        if real_violation { 1 } else { 0 },
        &infra,
    );
    for f in known.open_for(&id) {
        let n = merged.known.get(&f.id).copied().unwrap_or(0);
        println!(
            "KNOWN-FINDING: property={} {} [{}; hit {} times this run]",
            id, f.what, f.id, n
        );
    }
    println!(
        "{}: tier={} seed={} evaluations={} nontrivial={} distinct_nontrivial={} wall={:.1}s",
        id,
        a.tier.name(),
        a.seed,
        merged.evaluations,
        merged.nontrivial,
        merged.digests.len(),
        wall
    );
    for i in &infra {
        println!("INFRA: {i}");
    }
    if let (Some(v), Some(p)) = (&violation, &replay_path) {
        println!("FAILURE sig={} profile={}", v.sig, v.profile);
        println!("  {}", v.msg.replace('\n', "\n  "));
        for d in &v.detail {
            println!("  | {}", d.replace('\n', "\n  | "));
        }
        println!("VIOLATION property={} replay={}", id, p.display());
    }
    let _ = std::fs::remove_dir_all(&dir);
    exit
}

pub struct RegResult {
    pub total: u32,
    pub ok: u32,
    pub violation: Option<Violation>,
    pub stale: Vec<String>,
}

/// Replays every file in corpora/<id>/regress in a child process each (cheap:
/// a handful of files). `expect` is "pass" or "fail:<sig>".
fn run_regressions(exe: &Path, id: &str, _known: &Known) -> RegResult {
    let mut r = RegResult {
        total: 0,
        ok: 0,
        violation: None,
        stale: vec![],
    };
    let dir = super::verif_root().join("corpora").join(id).join("regress");
    let mut files: Vec<PathBuf> = match std::fs::read_dir(&dir) {
        Ok(d) => d.filter_map(|e| e.ok().map(|e| e.path())).collect(),
        Err(_) => return r,
    };
    files.sort();
    for f in files {
        if f.extension().map(|e| e != "json").unwrap_or(true) {
            continue;
        }
        let (_, kind, data, v) = match read_replay(&f) {
            Ok(x) => x,
            Err(_) => continue,
        };
        r.total += 1;
        let expect = v["expect"].as_str().unwrap_or("pass").to_string();
        let out = Command::new(exe)
            .arg("replay")
            .arg(id)
            .arg(&f)
            .arg("--quiet")
            .env("RUST_BACKTRACE", "0")
            .stderr(Stdio::null())
            .output();
        let out = match out {
            Ok(o) => o,
            Err(_) => continue,
        };
        let stdout = String::from_utf8_lossy(&out.stdout).to_string();
        let got_sig = stdout
            .lines()
            .find_map(|l| l.strip_prefix("REPLAY-FAIL sig="))
            .map(|s| s.to_string())
            .or_else(|| out.status.signal().map(|s| format!("crash:{}", signal_name(s))));
        match (expect.as_str(), got_sig) {
            ("pass", None) => r.ok += 1,
            ("pass", Some(sig)) => {
                if r.violation.is_none() {
                    r.violation = Some(Violation {
                        sig,
                        msg: format!("regression input {} fails again", f.display()),
                        kind,
                        data,
                        detail: stdout.lines().map(String::from).collect(),
                        profile: "verif".into(),
                    });
                }
            }
            (e, Some(sig)) if e.strip_prefix("fail:") == Some(sig.as_str()) => r.ok += 1,
            (e, got) => r.stale.push(format!(
                "regression {} expected {} but got {:?} (stale known finding?)",
                f.display(),
                e,
                got
            )),
        }
    }
    r
}

/// `vf replay <id> <file>`: strict single-case run.
pub fn replay(id: &str, path: &Path, quiet: bool) -> i32 {
    let check = match super::find_check(id) {
        Some(c) => c,
        None => {
            eprintln!("vf: unknown property {id}");
            return 2;
        }
    };
    let (_, kind, data, _) = match read_replay(path) {
        Ok(x) => x,
        Err(e) => {
            eprintln!("vf: {e}");
            return 2;
        }
    };
    super::panics::install_hook();
    let stack = check.stack_bytes();
    let h = std::thread::Builder::new()
        .stack_size(stack)
        .spawn(move || {
            let mut ctx = Ctx::new(Tier::Quick, true);
            ctx.verbose = true;
            let out = worker::run_case(check.as_ref(), kind, &data, &mut ctx);
            if !quiet {
                for l in &ctx.log {
                    println!("| {}", l.replace('\n', "\n| "));
                }
            }
            match out {
                Outcome::Pass => {
                    println!("REPLAY-PASS");
                    0
                }
                Outcome::Skip(r) => {
                    println!("REPLAY-SKIP {r}");
                    0
                }
                Outcome::Fail(f) => {
                    println!("REPLAY-FAIL sig={}", f.sig);
                    println!("{}", f.msg);
                    println!("VIOLATION property={} replay={}", check.id(), "(replayed file)");
                    1
                }
            }
        })
        .unwrap();
    h.join().unwrap_or(2)
}
