//! Counting allocator: per-thread live/peak byte counters and a process-wide
//! hard cap (an allocation above the cap prints a marker and aborts, so an
//! over-allocation is a clean, attributable death rather than an OOM kill).

use std::alloc::{GlobalAlloc, Layout, System};
use std::cell::Cell;
use std::sync::atomic::{AtomicUsize, Ordering};

pub struct Counting;

thread_local! {
    static LIVE: Cell<isize> = const { Cell::new(0) };
    static PEAK: Cell<isize> = const { Cell::new(0) };
    static TOTAL: Cell<usize> = const { Cell::new(0) };
    static BIGGEST: Cell<usize> = const { Cell::new(0) };
}

static GLOBAL_LIVE: AtomicUsize = AtomicUsize::new(0);
static CAP: AtomicUsize = AtomicUsize::new(usize::MAX);

pub fn set_cap(bytes: usize) {
    CAP.store(bytes, Ordering::Relaxed);
}

#[inline]
fn on_alloc(size: usize) {
    let g = GLOBAL_LIVE.fetch_add(size, Ordering::Relaxed) + size;
    if g > CAP.load(Ordering::Relaxed) {
        // no allocation allowed here
        let msg = b"VF-ALLOC-CAP-EXCEEDED\n";
        unsafe {
            libc::write(2, msg.as_ptr() as *const libc::c_void, msg.len());
            libc::abort();
        }
    }
    let _ = LIVE.try_with(|l| {
        let v = l.get() + size as isize;
        l.set(v);
        let _ = PEAK.try_with(|p| {
            if v > p.get() {
                p.set(v)
            }
        });
    });
    let _ = TOTAL.try_with(|t| t.set(t.get().wrapping_add(size)));
    let _ = BIGGEST.try_with(|b| {
        if size > b.get() {
            b.set(size)
        }
    });
}
#[inline]
fn on_free(size: usize) {
    GLOBAL_LIVE.fetch_sub(size, Ordering::Relaxed);
    let _ = LIVE.try_with(|l| l.set(l.get() - size as isize));
}

unsafe impl GlobalAlloc for Counting {
    unsafe fn alloc(&self, layout: Layout) -> *mut u8 {
        on_alloc(layout.size());
        System.alloc(layout)
    }
    unsafe fn dealloc(&self, ptr: *mut u8, layout: Layout) {
        on_free(layout.size());
        System.dealloc(ptr, layout)
    }
    unsafe fn alloc_zeroed(&self, layout: Layout) -> *mut u8 {
        on_alloc(layout.size());
        System.alloc_zeroed(layout)
    }
    unsafe fn realloc(&self, ptr: *mut u8, layout: Layout, new_size: usize) -> *mut u8 {
        if new_size > layout.size() {
            on_alloc(new_size - layout.size());
        } else {
            on_free(layout.size() - new_size);
        }
        System.realloc(ptr, layout, new_size)
    }
}

pub struct Measure {
    pub peak_over_start: usize,
    pub total: usize,
    pub biggest: usize,
}

/// Measure allocation on this thread during `f`: peak live bytes above the
/// level at entry, total bytes requested, biggest single request.
pub fn measure<T>(f: impl FnOnce() -> T) -> (T, Measure) {
    let start = LIVE.with(|l| l.get());
    PEAK.with(|p| p.set(start));
    TOTAL.with(|t| t.set(0));
    BIGGEST.with(|b| b.set(0));
    let v = f();
    let peak = PEAK.with(|p| p.get());
    let m = Measure {
        peak_over_start: (peak - start).max(0) as usize,
        total: TOTAL.with(|t| t.get()),
        biggest: BIGGEST.with(|b| b.get()),
    };
    (v, m)
}
