//! Evidence file writer (schema: /root/.vp/EVIDENCE.schema.json).

use super::driver::{Merged, RunArgs};
use super::Check;
use serde_json::json;

pub fn write(
    check: &dyn Check,
    a: &RunArgs,
    m: &Merged,
    wall: f64,
    violations: u32,
    infra: &[String],
) {
    let dir = super::verif_root().join("evidence");
    let _ = std::fs::create_dir_all(&dir);
    let mut assumptions = check.assumptions();
    assumptions.push(
        "A green run means no counter-example among the generated and enumerated cases; it does not establish absence."
            .into(),
    );
    let samples: Vec<_> = m.samples.clone();
    let exhaustive = check.exhaustive_note(a.tier);
    let j = json!({
        "property_id": check.id(),
        "tier": a.tier.name(),
        "seed": a.seed,
        "level": "exploration",
        "coverage": {
            "evaluations": m.evaluations,
            "nontrivial_cases": m.nontrivial,
            "distinct_nontrivial": m.digests.len(),
            "rule": check.rule(),
            "samples": samples,
            "classes": m.classes,
            "skipped": m.skipped,
            "excluded_known": m.known,
            "measurements": m.notes,
            "engines": m.engines,
            "fuzz_stage": m.fuzz,
            "exhaustive": false,
            "exhaustive_subspace": exhaustive,
            "infrastructure_notes": infra,
        },
        "assumptions": assumptions,
        "wall_s": (wall * 100.0).round() / 100.0,
        "violations": violations,
    });
    let path = dir.join(format!("{}.json", check.id()));
    let _ = std::fs::write(path, serde_json::to_vec_pretty(&j).unwrap());
}
