//! Known findings: committed, read-only at run time. An `open` entry whose
//! signature equals a failure's signature turns that failure into a counted
//! `KNOWN-FINDING`; a `fixed` entry suppresses nothing.

use serde::Deserialize;
use std::collections::BTreeMap;

#[derive(Deserialize, Clone, Debug)]
pub struct Finding {
    pub property: String,
    pub id: String,
    pub status: String, // "open" | "fixed"
    #[serde(default)]
    pub signatures: Vec<String>,
    pub what: String,
    #[serde(default)]
    pub commit: Option<String>,
    #[serde(default)]
    pub line: Option<String>,
}

#[derive(Deserialize, Default)]
struct File {
    #[serde(default)]
    findings: Vec<Finding>,
}

pub struct Known {
    by_sig: BTreeMap<(String, String), Finding>,
    pub all: Vec<Finding>,
}

impl Known {
    pub fn load() -> Known {
        let path = super::verif_root().join("known_findings.json");
        let file: File = match std::fs::read_to_string(&path) {
            Ok(s) => serde_json::from_str(&s).unwrap_or_else(|e| {
                eprintln!("vf: cannot parse {}: {e}", path.display());
                std::process::exit(2)
            }),
            Err(_) => File::default(),
        };
        let mut by_sig = BTreeMap::new();
        for f in &file.findings {
            if f.status == "open" {
                for s in &f.signatures {
                    by_sig.insert((f.property.to_uppercase(), s.clone()), f.clone());
                }
            }
        }
        Known {
            by_sig,
            all: file.findings,
        }
    }
    pub fn matches(&self, property: &str, sig: &str) -> Option<&Finding> {
        self.by_sig.get(&(property.to_uppercase(), sig.to_string()))
    }
    pub fn open_for(&self, property: &str) -> Vec<&Finding> {
        self.all
            .iter()
            .filter(|f| f.status == "open" && f.property.eq_ignore_ascii_case(property))
            .collect()
    }
}
