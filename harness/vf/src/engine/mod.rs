//! Engine: one case function per property, three drivers (proptest search,
//! libFuzzer, replay), crash isolation through worker processes, evidence.

pub mod alloc;
pub mod driver;
pub mod evidence;
pub mod fuzzstage;
pub mod known;
pub mod panics;
pub mod worker;

use std::collections::{BTreeMap, HashSet};

#[derive(Clone, Copy, PartialEq, Eq, Debug)]
pub enum Tier {
    Quick,
    Thorough,
}
impl Tier {
    pub fn name(self) -> &'static str {
        match self {
            Tier::Quick => "quick",
            Tier::Thorough => "thorough",
        }
    }
    pub fn parse(s: &str) -> Option<Tier> {
        match s {
            "quick" => Some(Tier::Quick),
            "thorough" => Some(Tier::Thorough),
            _ => None,
        }
    }
}

/// A failed case. `sig` identifies the failure precisely (entry point + call
/// site / type / shape); it is what known findings are keyed on.
#[derive(Clone, Debug)]
pub struct Failure {
    pub sig: String,
    pub msg: String,
}
impl Failure {
    pub fn new(sig: impl Into<String>, msg: impl Into<String>) -> Failure {
        Failure {
            sig: sig.into(),
            msg: msg.into(),
        }
    }
}

pub enum Outcome {
    Pass,
    /// Outside the property's domain (counted by reason).
    Skip(&'static str),
    Fail(Failure),
}

#[macro_export]
macro_rules! fail {
    ($sig:expr, $($arg:tt)*) => {
        return $crate::engine::Outcome::Fail($crate::engine::Failure::new($sig, format!($($arg)*)))
    };
}

/// Per-worker statistics; merged by the parent.
#[derive(Default)]
pub struct Stats {
    pub evaluations: u64,
    pub nontrivial: u64,
    pub digests: HashSet<u64>,
    pub classes: BTreeMap<String, u64>,
    pub skipped: BTreeMap<String, u64>,
    pub known: BTreeMap<String, u64>,
    pub samples: Vec<(String, String)>, // (class, text)
    pub sample_classes: BTreeMap<String, u32>,
    pub notes: BTreeMap<String, i64>,
    pub frozen: bool,
}

pub struct Ctx {
    pub tier: Tier,
    /// strict: replay mode, known findings are not tolerated
    pub strict: bool,
    pub stats: Stats,
    pub cur_classes: Vec<&'static str>,
    pub cur_nontrivial: Option<u64>,
    pub verbose: bool,
    pub log: Vec<String>,
}

pub const MAX_SAMPLES: usize = 14;
pub const MAX_SAMPLES_PER_CLASS: u32 = 2;

impl Ctx {
    pub fn new(tier: Tier, strict: bool) -> Ctx {
        Ctx {
            tier,
            strict,
            stats: Stats::default(),
            cur_classes: Vec::new(),
            cur_nontrivial: None,
            verbose: false,
            log: Vec::new(),
        }
    }
    /// Tag the current case with a class (counted once per case per class).
    pub fn class(&mut self, c: &'static str) {
        if !self.cur_classes.contains(&c) {
            self.cur_classes.push(c);
        }
    }
    /// Mark the current case as non-trivial, with a digest of its content.
    pub fn nontrivial(&mut self, digest: u64) {
        self.cur_nontrivial = Some(digest);
    }
    /// Offer a sample description; kept if the class still wants samples.
    pub fn sample(&mut self, f: impl FnOnce() -> String) {
        if self.verbose {
            let s = f();
            self.log.push(s);
            return;
        }
        if self.stats.frozen || self.stats.samples.len() >= MAX_SAMPLES {
            return;
        }
        let class = self.cur_classes.first().copied().unwrap_or("-");
        let n = self.stats.sample_classes.entry(class.to_string()).or_insert(0);
        if *n >= MAX_SAMPLES_PER_CLASS {
            return;
        }
        *n += 1;
        let mut s = f();
        if s.len() > 600 {
            let mut cut = 600;
            while !s.is_char_boundary(cut) {
                cut -= 1;
            }
            s.truncate(cut);
            s.push('…');
        }
        self.stats.samples.push((class.to_string(), s));
    }
    pub fn note(&mut self, key: &str, delta: i64) {
        if self.stats.frozen {
            return;
        }
        *self.stats.notes.entry(key.to_string()).or_insert(0) += delta;
    }
    pub fn note_max(&mut self, key: &str, v: i64) {
        if self.stats.frozen {
            return;
        }
        let e = self.stats.notes.entry(key.to_string()).or_insert(i64::MIN);
        if v > *e {
            *e = v;
        }
    }
    pub fn begin_case(&mut self) {
        self.cur_classes.clear();
        self.cur_nontrivial = None;
    }
    /// Fold the current case into the statistics.
    pub fn end_case(&mut self, out: &Outcome) {
        if self.stats.frozen {
            return;
        }
        self.stats.evaluations += 1;
        match out {
            Outcome::Pass => {
                for c in &self.cur_classes {
                    *self.stats.classes.entry(c.to_string()).or_insert(0) += 1;
                }
                if let Some(d) = self.cur_nontrivial {
                    self.stats.nontrivial += 1;
                    self.stats.digests.insert(d);
                }
            }
            Outcome::Skip(r) => {
                *self.stats.skipped.entry(r.to_string()).or_insert(0) += 1;
            }
            Outcome::Fail(_) => {}
        }
    }
}

pub fn digest_of(bytes: &[u8]) -> u64 {
    // FNV-1a 64 followed by a mix; deterministic across runs.
    let mut h: u64 = 0xcbf29ce484222325;
    for b in bytes {
        h ^= *b as u64;
        h = h.wrapping_mul(0x100000001b3);
    }
    h ^= h >> 29;
    h = h.wrapping_mul(0xbf58476d1ce4e5b9);
    h ^ (h >> 32)
}
pub fn digest_str(s: &str) -> u64 {
    digest_of(s.as_bytes())
}

pub trait Check: Sync + Send {
    fn id(&self) -> &'static str;
    /// How cases are generated and what makes one non-trivial / distinct.
    fn rule(&self) -> &'static str;
    fn assumptions(&self) -> Vec<String>;
    /// Upper bound of the entropy buffer length proptest generates.
    fn max_len(&self) -> usize {
        512
    }
    /// Number of generated cases for the tier (total over all shards).
    fn cases(&self, tier: Tier) -> u64;
    /// libFuzzer executions per process in the coverage-guided stage of the thorough tier.
    fn fuzz_runs(&self) -> u64 {
        300_000
    }
    /// The property, on one generated case.
    fn one_case(&self, data: &[u8], ctx: &mut Ctx) -> Outcome;
    /// Enumerated (exhaustive / fixed family) part, sharded. `emit` is given
    /// the direct encoding of each case (run through `direct_case` by the
    /// engine); it returns false when enumeration should stop.
    fn enumerate(
        &self,
        _tier: Tier,
        _shard: u64,
        _nshards: u64,
        _emit: &mut dyn FnMut(&[u8]) -> bool,
    ) {
    }
    /// Replays a case produced by `enumerate`.
    fn direct_case(&self, _data: &[u8], _ctx: &mut Ctx) -> Outcome {
        Outcome::Skip("no-direct-cases")
    }
    /// Is the enumerated sub-space complete for this tier?
    fn exhaustive_note(&self, _tier: Tier) -> Option<String> {
        None
    }
    /// Also run the cases through the no-overflow-check (release-like) binary.
    fn both_profiles(&self) -> bool {
        false
    }
    /// Stack size of the thread cases run on.
    fn stack_bytes(&self) -> usize {
        256 << 20
    }
    /// Number of worker processes (default: all cores).
    fn workers(&self) -> usize {
        16
    }
}

pub fn registry() -> Vec<Box<dyn Check>> {
    crate::checks::all()
}

pub fn find_check(id: &str) -> Option<Box<dyn Check>> {
    registry().into_iter().find(|c| c.id().eq_ignore_ascii_case(id))
}

pub fn verif_root() -> std::path::PathBuf {
    if let Ok(p) = std::env::var("VERIF_ROOT") {
        return p.into();
    }
    "/verif".into()
}
