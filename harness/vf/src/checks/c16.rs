//! C16 Principal text form is a checksummed bijection on 0..29-byte ids.
//! Oracle: refmodel::rprincipal (own CRC-32, base32, grouping).

use crate::engine::panics::guard;
use crate::engine::{digest_of, Check, Ctx, Failure, Outcome, Tier};
use crate::gen::Ent;
use crate::refmodel::rprincipal as rp;
use candid::{Decode, Encode, IDLArgs, IDLValue, Principal};
use std::convert::TryFrom;
use std::str::FromStr;

pub struct C16;

macro_rules! g {
    ($name:expr, $e:expr) => {
        match guard(|| $e) {
            Ok(r) => r,
            Err(p) => {
                return Err(Failure::new(
                    format!("{}:{}", $name, p.sig()),
                    format!("{} panicked at {}: {}", $name, p.location, p.message),
                ))
            }
        }
    };
}

fn f(sig: &str, msg: String) -> Failure {
    Failure::new(sig, msg)
}

fn wire_principal(b: &[u8]) -> Vec<u8> {
    let mut m = b"DIDL\x00\x01\x68\x01".to_vec();
    // leb128 length (b.len() < 16384 here)
    let n = b.len();
    if n < 128 {
        m.push(n as u8);
    } else {
        m.push((n & 0x7f) as u8 | 0x80);
        m.push((n >> 7) as u8);
    }
    m.extend_from_slice(b);
    m
}

fn check_bytes(b: &[u8]) -> Result<(), Failure> {
    let hexb = hex::encode(b);
    let r1 = g!("try_from_slice", Principal::try_from_slice(b));
    let r2 = g!("TryFrom<&[u8]>", Principal::try_from(b));
    let r3 = g!("TryFrom<Vec<u8>>", Principal::try_from(b.to_vec()));
    let r4 = g!("TryFrom<&Vec<u8>>", Principal::try_from(&b.to_vec()));
    let r5 = guard(|| Principal::from_slice(b));
    let wire = wire_principal(b);
    let w1 = g!("Decode!(Principal)", Decode!(&wire, Principal));
    let w2 = g!("untyped principal", IDLArgs::from_bytes(&wire));
    if b.len() > 29 {
        if r1.is_ok() || r2.is_ok() || r3.is_ok() || r4.is_ok() {
            return Err(f("constructor:accepted-too-long", format!("{} bytes accepted by a try_from constructor: {hexb}", b.len())));
        }
        if r5.is_ok() {
            return Err(f("from_slice:accepted-too-long", format!("from_slice accepted {} bytes: {hexb}", b.len())));
        }
        if w1.is_ok() || w2.is_ok() {
            return Err(f("wire:accepted-too-long", format!("wire principal of {} bytes accepted: {hexb}", b.len())));
        }
        return Ok(());
    }
    let p = match (r1, r2, r3, r4, r5) {
        (Ok(a), Ok(b2), Ok(c), Ok(d), Ok(e)) if a == b2 && a == c && a == d && a == e => a,
        other => {
            return Err(f(
                "constructor:rejected-or-disagree",
                format!("constructors on {} bytes {hexb}: {:?}", b.len(), other),
            ))
        }
    };
    if p.as_slice() != b {
        return Err(f("as_slice:mismatch", format!("as_slice {:?} != {hexb}", p.as_slice())));
    }
    let want = rp::to_text(b);
    let t = g!("to_text", p.to_text());
    let d = g!("Display", format!("{p}"));
    if t != want || d != want {
        return Err(f("to_text:not-canonical", format!("bytes {hexb}: to_text {t:?} Display {d:?} reference {want:?}")));
    }
    for (name, r) in [
        ("from_text", g!("from_text", Principal::from_text(&t)).map_err(|e| e.to_string())),
        ("FromStr", g!("FromStr", Principal::from_str(&t)).map_err(|e| e.to_string())),
        ("TryFrom<&str>", g!("TryFrom<&str>", Principal::try_from(t.as_str())).map_err(|e| e.to_string())),
    ] {
        match r {
            Ok(q) if q == p => {}
            other => return Err(f(&format!("{name}:roundtrip"), format!("{name}({t:?}) = {other:?}, want {hexb}"))),
        }
    }
    // serde, human readable
    let js = g!("serde_json::to_string", serde_json::to_string(&p)).map_err(|e| f("serde-json:ser", e.to_string()))?;
    if js != format!("\"{want}\"") {
        return Err(f("serde-json:text", format!("json form {js} want \"{want}\"")));
    }
    match g!("serde_json::from_str", serde_json::from_str::<Principal>(&js)) {
        Ok(q) if q == p => {}
        other => return Err(f("serde-json:roundtrip", format!("{other:?}"))),
    }
    // binary: candid wire
    let enc = g!("Encode!(Principal)", Encode!(&p)).map_err(|e| f("wire:encode", e.to_string()))?;
    if enc != wire {
        return Err(f("wire:encode-bytes", format!("Encode! gives {} want {}", hex::encode(&enc), hex::encode(&wire))));
    }
    match w1 {
        Ok(q) if q == p => {}
        other => return Err(f("wire:decode", format!("Decode!(Principal) = {other:?}"))),
    }
    match w2 {
        Ok(a) => match a.args.as_slice() {
            [IDLValue::Principal(q)] if *q == p => {}
            other => return Err(f("wire:untyped", format!("{other:?}"))),
        },
        Err(e) => return Err(f("wire:untyped", e.to_string())),
    }
    Ok(())
}

/// from_text accepts exactly the texts whose lower-case form is canonical.
fn check_text(c: &str) -> Result<bool, Failure> {
    let want = rp::from_text(c);
    let got = g!("from_text", Principal::from_text(c));
    let got2 = g!("FromStr", Principal::from_str(c));
    let got3 = g!("TryFrom<&str>", Principal::try_from(c));
    if got.is_ok() != got2.is_ok() || got.is_ok() != got3.is_ok() {
        return Err(f("from_text:entry-points-disagree", format!("text {c:?}")));
    }
    match (&want, &got) {
        (None, Err(_)) => Ok(false),
        (Some(b), Ok(p)) if p.as_slice() == &b[..] => Ok(true),
        (Some(b), Ok(p)) => Err(f("from_text:wrong-principal", format!("text {c:?}: got {} want {}", hex::encode(p.as_slice()), hex::encode(b)))),
        (None, Ok(p)) => Err(f(
            "from_text:accepted-non-canonical",
            format!("text {c:?} accepted as {} but canonical text is {:?}", hex::encode(p.as_slice()), rp::to_text(p.as_slice())),
        )),
        (Some(b), Err(e)) => Err(f("from_text:rejected-canonical", format!("text {c:?} (bytes {}) rejected: {e}", hex::encode(b)))),
    }
}

const SUBST: &[char] = &[
    'a', 'b', 'c', 'd', 'e', 'f', 'g', 'h', 'i', 'j', 'k', 'l', 'm', 'n', 'o', 'p', 'q', 'r', 's', 't', 'u', 'v', 'w', 'x', 'y', 'z',
    '2', '3', '4', '5', '6', '7', '-', '0', '1', '8', '9', '=', 'A', 'Z', ' ', 'é', '\u{212a}',
];

/// Characters outside ASCII whose Unicode upper- or lower-case form is `c`.
fn confusables(c: char) -> Vec<char> {
    match c.to_ascii_lowercase() {
        's' => vec!['\u{17f}'],
        'i' => vec!['\u{131}', '\u{130}'],
        'k' => vec!['\u{212a}'],
        'a' => vec!['\u{e5}', '\u{212b}'],
        _ => vec![],
    }
}

fn systematic_edits(t: &str, full: bool) -> Vec<String> {
    let chars: Vec<char> = t.chars().collect();
    let mut out = vec![];
    // substitutions
    for i in 0..chars.len() {
        for (k, &s) in SUBST.iter().enumerate() {
            if !full && (i * 7 + k) % 5 != 0 {
                continue;
            }
            if chars[i] == s {
                continue;
            }
            let mut c = chars.clone();
            c[i] = s;
            out.push(c.into_iter().collect());
        }
    }
    // non-ASCII characters that Unicode case mapping turns into the very letter they replace
    for i in 0..chars.len() {
        for c2 in confusables(chars[i]) {
            let mut c = chars.clone();
            c[i] = c2;
            out.push(c.into_iter().collect());
        }
    }
    if let Some(i) = t.find("ss") {
        out.push(format!("{}{}{}", &t[..i], '\u{df}', &t[i + 2..]));
    }
    // case
    out.push(t.to_ascii_uppercase());
    for i in 0..chars.len() {
        let mut c = chars.clone();
        c[i] = c[i].to_ascii_uppercase();
        out.push(c.into_iter().collect());
    }
    // dash removal / insertion / move
    for i in 0..chars.len() {
        if chars[i] == '-' {
            let mut c = chars.clone();
            c.remove(i);
            out.push(c.iter().collect());
            if i + 1 < chars.len() {
                let mut c = chars.clone();
                c.swap(i, i + 1);
                out.push(c.iter().collect());
            }
            if i > 0 {
                let mut c = chars.clone();
                c.swap(i, i - 1);
                out.push(c.iter().collect());
            }
        }
    }
    for i in 0..=chars.len() {
        let mut c = chars.clone();
        c.insert(i, '-');
        out.push(c.into_iter().collect());
    }
    out.push(chars.iter().filter(|c| **c != '-').collect());
    // truncation / extension
    for i in 0..chars.len() {
        out.push(chars[..i].iter().collect());
    }
    for s in ["a", "aa", "-", "-a", "=", "a-aaaaa", "\n", " "] {
        out.push(format!("{t}{s}"));
        out.push(format!("{s}{t}"));
    }
    out
}

fn full_check(b: &[u8], full_edits: bool, ctx: &mut Ctx) -> Result<(), Failure> {
    check_bytes(b)?;
    if b.len() <= 29 {
        let t = rp::to_text(b);
        let mut accepted = 0;
        let edits = systematic_edits(&t, full_edits);
        let n = edits.len();
        for c in edits {
            if check_text(&c)? {
                accepted += 1;
            }
        }
        ctx.note("edited_texts_checked", n as i64);
        ctx.note("edited_texts_accepted (case variants)", accepted);
    }
    Ok(())
}

impl Check for C16 {
    fn id(&self) -> &'static str {
        "C16"
    }
    fn rule(&self) -> &'static str {
        "Cases are byte strings (enumerated: every string of length <= 2; generated: random strings of length 0..40, biased to 27..31) together with candidate texts derived from the canonical text: single-character substitutions over the base32 alphabet plus '-', 0, 1, 8, 9, '=', upper case, space, non-ASCII; case changes; dash insertion/removal/move; truncation; extension; plus fully random texts. Oracle: own CRC-32/base32/grouping implementation: to_text/Display equal the reference text; from_text/FromStr/TryFrom<&str> accept a candidate iff its lower-case form is exactly the reference text of the bytes it denotes (<= 29 bytes) and return those bytes; every constructor rejects > 29 bytes (from_slice panics); serde round-trips through JSON and the Candid wire; the wire decoder rejects > 29 bytes. Non-trivial = byte string of length >= 1; distinct = distinct (bytes, candidate text)."
    }
    fn assumptions(&self) -> Vec<String> {
        vec!["the textual format is the one of the IC interface specification (CRC-32 IEEE big-endian, RFC 4648 base32 without padding, groups of five)".into()]
    }
    fn max_len(&self) -> usize {
        128
    }
    fn cases(&self, tier: Tier) -> u64 {
        match tier {
            Tier::Quick => 600_000,
            Tier::Thorough => 25_000_000,
        }
    }
    fn exhaustive_note(&self, _tier: Tier) -> Option<String> {
        Some("all 65 793 byte strings of length <= 2 enumerated completely (with systematic text edits of each)".into())
    }
    fn direct_case(&self, data: &[u8], ctx: &mut Ctx) -> Outcome {
        if data.is_empty() {
            return Outcome::Skip("empty");
        }
        let full = data[0] == 1;
        let b = &data[1..];
        ctx.class(match b.len() {
            0 => "enumerated-len0",
            1 => "enumerated-len1",
            _ => "enumerated-len2",
        });
        if !b.is_empty() {
            ctx.nontrivial(digest_of(data));
        }
        ctx.sample(|| format!("bytes {} text {} + systematic edits", hex::encode(b), rp::to_text(b)));
        match full_check(b, full, ctx) {
            Ok(()) => Outcome::Pass,
            Err(f) => Outcome::Fail(f),
        }
    }
    fn enumerate(&self, tier: Tier, shard: u64, nshards: u64, emit: &mut dyn FnMut(&[u8]) -> bool) {
        let mut idx = 0u64;
        let full_all = tier == Tier::Thorough;
        let mut go = |b: &[u8], full: bool| -> bool {
            idx += 1;
            if idx % nshards != shard {
                return true;
            }
            let mut d = vec![full as u8];
            d.extend_from_slice(b);
            emit(&d)
        };
        if !go(&[], true) {
            return;
        }
        for a in 0..=255u8 {
            if !go(&[a], true) {
                return;
            }
        }
        for a in 0..=255u8 {
            for b in 0..=255u8 {
                if !go(&[a, b], full_all) {
                    return;
                }
            }
        }
    }
    fn one_case(&self, data: &[u8], ctx: &mut Ctx) -> Outcome {
        let mut e = Ent::new(data);
        let len = match e.below(8) {
            0 => e.range(0, 4),
            1 | 2 => e.range(27, 31),
            3 => e.range(30, 40),
            _ => e.range(0, 29),
        };
        let b = e.bytes_padded(len);
        if let Err(fl) = check_bytes(&b) {
            return Outcome::Fail(fl);
        }
        ctx.class(if len > 29 { "too-long" } else { match len % 5 { 0 => "len%5=0", 1 => "len%5=1", 2 => "len%5=2", 3 => "len%5=3", _ => "len%5=4" } });
        // one random edit of the canonical text (canonical text also exists for > 29 bytes)
        let t = rp::to_text(&b);
        let mut chars: Vec<char> = t.chars().collect();
        let kind = e.below(9);
        let cand: String = match kind {
            0 => {
                let i = e.below(chars.len());
                let conf: Vec<usize> = (0..chars.len()).filter(|j| !confusables(chars[*j]).is_empty()).collect();
                if !conf.is_empty() && e.ratio(1, 3) {
                    let j = *e.pick(&conf);
                    let cs = confusables(chars[j]);
                    chars[j] = *e.pick(&cs);
                    ctx.class("edit-unicode-confusable");
                } else {
                    chars[i] = *e.pick(SUBST);
                    ctx.class("edit-substitute");
                }
                chars.into_iter().collect()
            }
            1 => {
                for c in chars.iter_mut() {
                    if e.bool() {
                        *c = c.to_ascii_uppercase();
                    }
                }
                ctx.class("edit-case");
                chars.into_iter().collect()
            }
            2 => {
                let i = e.below(chars.len() + 1);
                chars.insert(i, '-');
                ctx.class("edit-insert-dash");
                chars.into_iter().collect()
            }
            3 => {
                let dashes: Vec<usize> = chars.iter().enumerate().filter(|(_, c)| **c == '-').map(|(i, _)| i).collect();
                if !dashes.is_empty() {
                    let i = *e.pick(&dashes);
                    chars.remove(i);
                    if e.bool() {
                        let j = e.below(chars.len() + 1);
                        chars.insert(j, '-');
                    }
                }
                ctx.class("edit-move-or-drop-dash");
                chars.into_iter().collect()
            }
            4 => {
                let i = e.below(chars.len() + 1);
                ctx.class("edit-truncate");
                chars[..i].iter().collect()
            }
            5 => {
                let n = e.range(1, 9);
                for _ in 0..n {
                    chars.push(*e.pick(SUBST));
                }
                ctx.class("edit-extend");
                chars.into_iter().collect()
            }
            6 => {
                // two substitutions (can cancel in the checksum only by chance)
                for _ in 0..2 {
                    let i = e.below(chars.len());
                    chars[i] = *e.pick(&SUBST[..32]);
                }
                ctx.class("edit-two-substitutions");
                chars.into_iter().collect()
            }
            7 => {
                // fully random text over the alphabet and dashes
                let n = e.range(0, 70);
                ctx.class("random-text");
                (0..n).map(|_| *e.pick(&SUBST[..34])).collect()
            }
            _ => {
                ctx.class("canonical-text");
                t.clone()
            }
        };
        match check_text(&cand) {
            Ok(acc) => {
                if acc {
                    ctx.class("candidate-accepted");
                } else {
                    ctx.class("candidate-rejected");
                }
            }
            Err(fl) => return Outcome::Fail(fl),
        }
        if len >= 1 {
            let mut k = b.clone();
            k.extend_from_slice(cand.as_bytes());
            ctx.nontrivial(digest_of(&k));
        }
        ctx.sample(|| format!("bytes {} ({} bytes) canonical {:?} candidate {:?}", hex::encode(&b), b.len(), t, cand));
        Outcome::Pass
    }
}
