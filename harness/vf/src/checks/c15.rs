//! C15 Field names and numeric ids are identified consistently by the spec's hash.

use crate::corpus::derived::{Documented, DocumentedEnum, DOCUMENTED_ENUM_NAMES, DOCUMENTED_NAMES};
use crate::engine::panics::guard;
use crate::engine::{digest_of, Check, Ctx, Failure, Outcome, Tier};
use crate::gen::labels::{self, COLLISIONS};
use crate::gen::Ent;
use crate::refmodel::rtype::{quote_text, rhash};
use crate::refmodel::rwire::{decode_message, parse_header, put_uleb};
use candid::types::subtype::{equal, Gamma};
use candid::types::{Label, Type, TypeEnv, TypeInner};
use candid::{CandidType, Decode, Encode, IDLArgs, Nat};
use candid_parser::parse_idl_args;
use candid_parser::syntax::IDLType;
use std::collections::hash_map::DefaultHasher;
use std::hash::{Hash, Hasher};

pub struct C15;

fn f(sig: &str, msg: String) -> Failure {
    Failure::new(sig, msg)
}

fn std_hash<T: Hash>(t: &T) -> u64 {
    let mut h = DefaultHasher::new();
    t.hash(&mut h);
    h.finish()
}

fn parse_type(s: &str) -> Result<Type, String> {
    let ast = s.parse::<IDLType>().map_err(|e| e.to_string())?;
    candid_parser::typing::ast_to_type(&TypeEnv::new(), &ast).map_err(|e| e.to_string())
}

macro_rules! g {
    ($name:expr, $e:expr) => {
        match guard(|| $e) {
            Ok(r) => r,
            Err(p) => return Err(f(&format!("{}:{}", $name, p.sig()), format!("{} panicked: {}", $name, p.message))),
        }
    };
}

fn check_label(name: &str, other: &str, n2: u32) -> Result<(), Failure> {
    let id = rhash(name);
    // 1. the hash, three ways
    let h = g!("idl_hash", candid::idl_hash(name));
    if h != id {
        return Err(f("idl_hash:differs-from-spec", format!("idl_hash({name:?}) = {h}, spec hash = {id}")));
    }
    // 2. Label equality / order / hashing go through the id
    let ln = Label::Named(name.to_string());
    let li = Label::Id(id);
    let lu = Label::Unnamed(id);
    if g!("Label::get_id", ln.get_id()) != id {
        return Err(f("Label::get_id:differs", format!("{name:?}")));
    }
    if !(ln == li && li == lu && ln.cmp(&li) == std::cmp::Ordering::Equal && std_hash(&ln) == std_hash(&li) && std_hash(&li) == std_hash(&lu)) {
        return Err(f("Label:name-and-id-not-identified", format!("Named({name:?}) vs Id({id})")));
    }
    for l2 in [Label::Named(other.to_string()), Label::Id(n2)] {
        let want = id.cmp(&l2.get_id());
        if ln.cmp(&l2) != want || li.cmp(&l2) != want || (ln == l2) != (want == std::cmp::Ordering::Equal) {
            return Err(f("Label:order-not-by-id", format!("{ln:?} vs {l2:?}")));
        }
    }
    // 3. text values: named and numeric spelling are the same value
    let qn = quote_text(name);
    let tv_named = format!("(record {{ {qn} = 42 : nat; 4_294_967_294 = \"x\" }})");
    let tv_id = format!("(record {{ {id} = 42 : nat; 4294967294 = \"x\" }})");
    let (vn, vi) = match (g!("parse_idl_args", parse_idl_args(&tv_named)), g!("parse_idl_args", parse_idl_args(&tv_id))) {
        (Ok(a), Ok(b)) => (a, b),
        (a, b) => {
            // only a collision with the second field may reject
            if id == 4294967294 {
                return Ok(());
            }
            return Err(f("value-text:rejected", format!("{tv_named} -> {:?}\n{tv_id} -> {:?}", a.map(|x| x.to_string()).map_err(|e| e.to_string()), b.map(|x| x.to_string()).map_err(|e| e.to_string()))));
        }
    };
    if vn != vi {
        return Err(f("value-text:name-and-id-differ", format!("{tv_named} parses to {vn}, {tv_id} parses to {vi}")));
    }
    // positional shorthand: an unlabelled field takes the id after the previous field's,
    // whether that one was written as a name or as a number
    if id < u32::MAX - 2 {
        let (i1, i2) = (id as u64 + 1, id as u64 + 2);
        let pairs = [
            (format!("(record {{ {qn} = 1 : nat8; 2 : nat8; 3 : nat8 }})"), format!("(record {{ {id} = 1 : nat8; {i1} = 2 : nat8; {i2} = 3 : nat8 }})")),
            (format!("(record {{ {id} = 1 : nat8; 2 : nat8 }})"), format!("(record {{ {i1} = 2 : nat8; {qn} = 1 : nat8 }})")),
            (format!("(record {{ 5 : nat8; {qn} = 1 : nat8; 2 : nat8 }})"), format!("(record {{ 0 = 5 : nat8; {id} = 1 : nat8; {i1} = 2 : nat8 }})")),
        ];
        for (short, long) in &pairs {
            match (g!("parse_idl_args", parse_idl_args(short)), g!("parse_idl_args", parse_idl_args(long))) {
                (Ok(a), Ok(b)) => {
                    if a != b {
                        return Err(f("value-text:positional-field-after-label-misnumbered", format!("{short} parses to {a}, {long} parses to {b}")));
                    }
                }
                (a, b) => {
                    // id 0 collides with the leading positional field of the third pair
                    if id == 0 || id as u64 + 1 == 0 {
                        continue;
                    }
                    return Err(f("value-text:positional-shorthand-rejected", format!("{short} -> {:?}\n{long} -> {:?}", a.map(|x| x.to_string()).map_err(|e| e.to_string()), b.map(|x| x.to_string()).map_err(|e| e.to_string()))));
                }
            }
        }
        let (ts, tl) = (format!("record {{ {qn} : nat; text; bool }}"), format!("record {{ {i2} : bool; {id} : nat; {i1} : text }}"));
        match (g!("parse type", parse_type(&ts)), g!("parse type", parse_type(&tl))) {
            (Ok(a), Ok(b)) => {
                if g!("equal", equal(&mut Gamma::new(), &TypeEnv::new(), &a, &b)).is_err() {
                    return Err(f("type-text:positional-field-after-label-misnumbered", format!("{ts} is {a}, {tl} is {b}")));
                }
            }
            (a, b) => return Err(f("type-text:positional-shorthand-rejected", format!("{ts} -> {a:?}\n{tl} -> {b:?}"))),
        }
    }
    // .did types with names vs ids are equal, fields ordered by id
    let tt_named = format!("record {{ {qn} : nat; 4294967294 : text }}");
    let tt_id = format!("record {{ 4294967294 : text; {id} : nat }}");
    let (tn, ti) = match (g!("parse type", parse_type(&tt_named)), g!("parse type", parse_type(&tt_id))) {
        (Ok(a), Ok(b)) => (a, b),
        (a, b) => return Err(f("type-text:rejected", format!("{tt_named} -> {a:?}\n{tt_id} -> {b:?}"))),
    };
    if g!("equal", equal(&mut Gamma::new(), &TypeEnv::new(), &tn, &ti)).is_err() {
        return Err(f("type-text:name-and-id-not-equal", format!("{tt_named} vs {tt_id}")));
    }
    for t in [&tn, &ti] {
        if let TypeInner::Record(fs) = t.as_ref() {
            let ids: Vec<u32> = fs.iter().map(|x| x.id.get_id()).collect();
            let mut sorted = ids.clone();
            sorted.sort();
            if ids != sorted {
                return Err(f("type-text:fields-not-ordered-by-id", format!("{t} has ids {ids:?}")));
            }
        }
    }
    // 4. encode against either type: identical bytes; decode across
    let env = TypeEnv::new();
    let mut all = vec![];
    for v in [&vn, &vi] {
        for t in [&tn, &ti] {
            let b = match g!("to_bytes_with_types", v.to_bytes_with_types(&env, &[t.clone()])) {
                Ok(b) => b,
                Err(e) => return Err(f("encode:named-vs-id-rejected", format!("{v} at {t}: {e}"))),
            };
            all.push(b);
        }
    }
    if all.iter().any(|b| *b != all[0]) {
        return Err(f("encode:bytes-differ-between-name-and-id", format!("{:?}", all.iter().map(hex::encode).collect::<Vec<_>>())));
    }
    // on the wire: ascending ids, and the independent decoder sees field `id`
    let d = decode_message(&all[0]).map_err(|e| f("encode:malformed", format!("{e:?} {}", hex::encode(&all[0]))))?;
    match d.values.first() {
        Some(crate::refmodel::rval::RVal::Record(fs)) if fs.iter().any(|(i, _)| *i == id) && fs.windows(2).all(|w| w[0].0 < w[1].0) => {}
        other => return Err(f("encode:wire-record-wrong", format!("{other:?}"))),
    }
    for t in [&tn, &ti] {
        match g!("from_bytes_with_types", IDLArgs::from_bytes_with_types(&all[0], &env, &[t.clone()])) {
            Ok(a) if a == vn && a == vi => {}
            other => return Err(f("decode:across-name-and-id", format!("at {t}: {other:?}"))),
        }
    }
    // 7. two labels with one id are rejected
    let dups = [
        format!("(record {{ {qn} = 1; {qn} = 2 }})"),
        format!("(record {{ {qn} = 1; {id} = 2 }})"),
        format!("(record {{ {id} = 1; {qn} = 2 }})"),
    ];
    for d in &dups {
        if g!("parse_idl_args", parse_idl_args(d)).is_ok() {
            return Err(f("value-text:duplicate-id-accepted", d.clone()));
        }
    }
    let dup_types = [
        format!("record {{ {qn} : nat; {id} : nat }}"),
        format!("variant {{ {id} : nat; {qn} }}"),
        format!("variant {{ {qn}; {qn} : text }}"),
    ];
    for d in &dup_types {
        if g!("parse type", parse_type(d)).is_ok() {
            return Err(f("type-text:duplicate-id-accepted", d.clone()));
        }
    }
    // binary header with duplicate / descending ids
    let mut pairs: Vec<(u8, u32, u32)> = vec![];
    for code in [0x6cu8, 0x6b] {
        for x in [id, n2, u32::MAX, u32::MAX - 1, 0, 1] {
            pairs.push((code, x, x));
            if x > 0 {
                pairs.push((code, x, x - 1));
            }
        }
    }
    for (code, a, b) in pairs {
        let mut m = b"DIDL\x01".to_vec();
        m.extend([code, 2]);
        put_uleb(&mut m, a as u64);
        m.push(0x7d);
        put_uleb(&mut m, b as u64);
        m.push(0x7d);
        // one argument of that type: a record holds both fields, a variant selects case 0
        if code == 0x6c {
            m.extend([1, 0, 1, 2]);
        } else {
            m.extend([1, 0, 0, 1]);
        }
        debug_assert!(parse_header(&m).is_err());
        if g!("from_bytes", IDLArgs::from_bytes(&m)).is_ok() {
            return Err(f("binary-header:unsorted-or-duplicate-ids-accepted", hex::encode(&m)));
        }
    }
    Ok(())
}

/// Fixed checks: the derive macro's hash, macro-built types, colliding pairs.
fn fixed_checks() -> Result<(), Failure> {
    // derive macro: keys of _ty_doc().fields are its own hash of each (renamed) field name
    let doc = g!("_ty_doc", Documented::_ty_doc());
    let mut want: Vec<u32> = DOCUMENTED_NAMES.iter().map(|n| rhash(n)).collect();
    want.sort();
    let got: Vec<u32> = doc.fields.keys().copied().collect();
    if got != want {
        return Err(f("derive:field-hash-differs-from-spec", format!("derive keys {got:?}, spec hashes {want:?} for {DOCUMENTED_NAMES:?}")));
    }
    let ty = g!("ty", Documented::ty());
    match ty.as_ref() {
        TypeInner::Record(fs) => {
            let ids: Vec<u32> = fs.iter().map(|x| x.id.get_id()).collect();
            if ids != want {
                return Err(f("derive:fields-not-ordered-by-spec-hash", format!("{ids:?} vs {want:?}")));
            }
        }
        other => return Err(f("derive:not-a-record", format!("{other}"))),
    }
    let doc = g!("_ty_doc", DocumentedEnum::_ty_doc());
    let mut want: Vec<u32> = DOCUMENTED_ENUM_NAMES.iter().map(|n| rhash(n)).collect();
    want.sort();
    let got: Vec<u32> = doc.fields.keys().copied().collect();
    if got != want {
        return Err(f("derive:variant-hash-differs-from-spec", format!("derive keys {got:?}, spec hashes {want:?}")));
    }
    // a derived struct decodes a value encoded against numeric ids and back
    let v = Documented { plain_field: 1, r#type: 2, renamed_kw: 3, renamed_unicode: 4, renamed_numeric: 5, renamed_odd: 6, ccft2: 7 };
    let bytes = g!("Encode", Encode!(&v)).map_err(|e| f("derive:encode", e.to_string()))?;
    let text = format!(
        "(record {{ {} }})",
        DOCUMENTED_NAMES.iter().enumerate().map(|(i, n)| format!("{} = {} : nat8", rhash(n), i + 1)).collect::<Vec<_>>().join("; ")
    );
    let args = g!("parse", parse_idl_args(&text)).map_err(|e| f("derive:id-text", e.to_string()))?;
    let bytes2 = g!("to_bytes", args.to_bytes()).map_err(|e| f("derive:id-encode", e.to_string()))?;
    if bytes != bytes2 {
        return Err(f("derive:bytes-differ-from-id-record", format!("{} vs {}", hex::encode(&bytes), hex::encode(&bytes2))));
    }
    match g!("Decode", Decode!(&bytes2, Documented)) {
        Ok(w) if w == v => {}
        other => return Err(f("derive:decode-from-id-record", format!("{other:?}"))),
    }
    // record!/variant! order by id and reject two labels with one id (documented: panic)
    let t = g!("record!", candid::record! { zebra: Nat::ty(); apple: Nat::ty(); 5: Nat::ty() });
    if let TypeInner::Record(fs) = t.as_ref() {
        let ids: Vec<u32> = fs.iter().map(|x| x.id.get_id()).collect();
        let mut s = ids.clone();
        s.sort();
        if ids != s || !ids.contains(&rhash("zebra")) || !ids.contains(&5) {
            return Err(f("record!:not-ordered-by-id", format!("{ids:?}")));
        }
    }
    if guard(|| candid::record! { ccft2: Nat::ty(); diba: Nat::ty() }).is_ok() {
        return Err(f("record!:colliding-names-accepted", "ccft2 / diba".into()));
    }
    if guard(|| candid::variant! { a: Nat::ty(); a: Nat::ty() }).is_ok() {
        return Err(f("variant!:duplicate-accepted", "a / a".into()));
    }
    if guard(|| candid::record! { 97: Nat::ty(); a: Nat::ty() }).is_ok() {
        return Err(f("record!:name-vs-id-accepted", "97 / a".into()));
    }
    // every known colliding pair
    for (a, b) in COLLISIONS {
        let d = format!("record {{ {a} : nat; {b} : nat }}");
        if g!("parse type", parse_type(&d)).is_ok() {
            return Err(f("type-text:colliding-names-accepted", d));
        }
        let d = format!("(variant {{ {a} = 1 }})");
        let e2 = format!("(variant {{ {b} = 1 }})");
        match (g!("parse", parse_idl_args(&d)), g!("parse", parse_idl_args(&e2))) {
            (Ok(x), Ok(y)) if x == y => {}
            _ => return Err(f("value-text:colliding-names-not-identified", format!("{d} / {e2}"))),
        }
    }
    Ok(())
}

impl Check for C15 {
    fn id(&self) -> &'static str {
        "C15"
    }
    fn rule(&self) -> &'static str {
        "A case is a label string (pools: ASCII identifiers, every keyword of Candid/JS/TS/Motoko/Rust and keyword_, numeric-looking names, names with quotes, commas, backslashes, control characters, arbitrary Unicode, hash-colliding pairs) with a second label and a numeric id. Oracle (independent hash): candid::idl_hash equals the spec hash; Label::Named(s), Label::Id(h(s)) and Label::Unnamed(h(s)) are ==, compare Equal and hash equally, and any two labels order as their ids; the text values record { <name> = v } and record { <id> = v } parse to equal values; the types written with the name and with the id are `equal`, with fields ordered by id; all four (value, type) combinations encode to identical bytes whose record an independent decoder reads with ascending ids; the bytes decode at either type to the same value; two labels with one id are rejected by the value parser, the type parser and the binary header parser. Enumerated once per run: the derive macro's own hash (keys of _ty_doc().fields of structs/enums with plain, raw, renamed keyword/non-ASCII/numeric/odd names) equals the spec hash and orders ty(); a derived struct's encoding equals that of the id-only text record and decodes from it; record!/variant! order by id and panic on duplicate, colliding and name-vs-id labels; all 14 known colliding pairs. Non-trivial = the label is non-ASCII, numeric-looking, a keyword, needs quoting, or is one of a colliding pair; distinct = distinct label."
    }
    fn assumptions(&self) -> Vec<String> {
        vec!["the derive macro's hash is only observable for field names fixed at compile time (one documented struct and one enum)".into()]
    }
    fn max_len(&self) -> usize {
        128
    }
    fn cases(&self, tier: Tier) -> u64 {
        match tier {
            Tier::Quick => 1_000_000,
            Tier::Thorough => 30_000_000,
        }
    }
    fn enumerate(&self, _tier: Tier, shard: u64, _n: u64, emit: &mut dyn FnMut(&[u8]) -> bool) {
        if shard == 0 {
            emit(b"fixed");
            for k in labels::CANDID_KW.iter().chain(labels::ODD).chain(labels::IDENTS) {
                let mut d = b"label:".to_vec();
                d.extend(k.as_bytes());
                if !emit(&d) {
                    return;
                }
            }
        }
    }
    fn direct_case(&self, data: &[u8], ctx: &mut Ctx) -> Outcome {
        if data == b"fixed" {
            ctx.class("fixed-derive-and-macro-checks");
            ctx.nontrivial(digest_of(data));
            return match fixed_checks() {
                Ok(()) => Outcome::Pass,
                Err(fl) => Outcome::Fail(fl),
            };
        }
        if let Some(name) = data.strip_prefix(b"label:").and_then(|b| std::str::from_utf8(b).ok()) {
            ctx.class("pool-label");
            ctx.nontrivial(digest_of(data));
            return match check_label(name, "other", 7) {
                Ok(()) => Outcome::Pass,
                Err(fl) => Outcome::Fail(fl),
            };
        }
        Outcome::Skip("bad-direct-case")
    }
    fn one_case(&self, data: &[u8], ctx: &mut Ctx) -> Outcome {
        let mut e = Ent::new(data);
        let name = labels::label_name(&mut e);
        let other = labels::label_name(&mut e);
        let n2 = labels::field_id(&mut e);
        if !name.is_ascii() {
            ctx.class("non-ascii");
        }
        if name.parse::<u64>().is_ok() {
            ctx.class("numeric-looking");
        }
        if labels::CANDID_KW.contains(&name.as_str()) {
            ctx.class("candid-keyword");
        }
        if COLLISIONS.iter().any(|(a, b)| *a == name || *b == name) {
            ctx.class("colliding-pair");
        }
        let plain = crate::refmodel::rtype::is_plain_ident(&name);
        if !plain {
            ctx.class("needs-quoting");
        }
        match check_label(&name, &other, n2) {
            Ok(()) => {
                if !plain || name.len() > 12 {
                    ctx.nontrivial(digest_of(name.as_bytes()));
                }
                ctx.sample(|| format!("label {name:?} (id {}) vs {other:?} / {n2}", rhash(&name)));
                Outcome::Pass
            }
            Err(fl) => Outcome::Fail(Failure::new(fl.sig, format!("{}\nlabel {name:?} id {}", fl.msg, rhash(&name)))),
        }
    }
}
