//! C03 Every encoded message is well-formed per the binary format of the spec.
//! Oracle: independent strict decoder (refmodel::rwire).

use crate::checks::c10::{gen_triple, Triple};
use crate::corpus::registry::{registry, Api};
use crate::engine::panics::guard;
use crate::engine::{digest_of, Check, Ctx, Failure, Outcome, Tier};
use crate::gen::types::TypeCfg;
use crate::gen::Ent;
use crate::refmodel::ridl::{to_idl, ById};
use crate::refmodel::rsub;
use crate::refmodel::rtype::{self, Builder, Graph, TId};
use crate::refmodel::rval::{show, RVal};
use crate::refmodel::rwire::{decode_message, Entry};
use candid::ser::IDLBuilder;
use candid::IDLArgs;

pub struct C03;

/// The message parses completely under the strict reading of the grammar and
/// carries exactly the expected argument types and values.
pub fn conforms(bytes: &[u8], expected: &[(&Graph, TId, &RVal)], what: &str) -> Result<(), Failure> {
    let d = decode_message(bytes).map_err(|e| {
        Failure::new(
            format!("{what}:malformed-output"),
            format!("independent decoder rejects the encoder output ({e:?}): {}", hex::encode(bytes)),
        )
    })?;
    if d.nonminimal_structural || d.nonminimal_value {
        return Err(Failure::new(format!("{what}:non-minimal-leb128"), hex::encode(bytes)));
    }
    // the table holds only composite entries by construction of the parser; no future types
    if d.header.table.iter().any(|e| matches!(e, Entry::Future(..))) {
        return Err(Failure::new(format!("{what}:future-type-in-output"), hex::encode(bytes)));
    }
    if d.values.len() != expected.len() {
        return Err(Failure::new(
            format!("{what}:argument-count"),
            format!("{} arguments on the wire, {} expected: {}", d.values.len(), expected.len(), hex::encode(bytes)),
        ));
    }
    for (i, (g, t, v)) in expected.iter().enumerate() {
        if d.values[i] != **v {
            return Err(Failure::new(
                format!("{what}:wrong-value-on-wire"),
                format!("argument {i}: wire value {} expected {}\nbytes {}", show(&d.values[i]), show(v), hex::encode(bytes)),
            ));
        }
        if !rsub::equal_across(g, *t, &d.types.graph, d.types.args[i]) {
            return Err(Failure::new(
                format!("{what}:wrong-type-on-wire"),
                format!(
                    "argument {i}: wire type {} expected {}\nbytes {}",
                    rtype::show_node(&d.types.graph, d.types.args[i], 4),
                    rtype::show_node(g, *t, 4),
                    hex::encode(bytes)
                ),
            ));
        }
    }
    Ok(())
}

/// Graph of a corpus type via TypeContainer (no Knot nodes).
pub fn corpus_graph(ops: &dyn crate::corpus::registry::TypeOps) -> Result<(Graph, TId), String> {
    let (t, env) = guard(|| ops.container_add()).map_err(|p| format!("TypeContainer::add panicked at {}: {}", p.location, p.message))?;
    let renv = rtype::env_from_candid(&env).map_err(|e| format!("exported environment contains {e:?}: {env}"))?;
    let ty = rtype::from_candid(&t).map_err(|e| format!("exported type contains {e:?}: {t}"))?;
    let mut b = Builder::new(&renv);
    let root = b.ty(&ty).map_err(|e| format!("exported environment is not closed/well-formed ({e:?}): type {t} in\n{env}"))?;
    Ok((b.graph, root))
}

impl Check for C03 {
    fn id(&self) -> &'static str {
        "C03"
    }
    fn rule(&self) -> &'static str {
        "A case is an encoder call: (a) one corpus Rust value through Encode!, encode_args or IDLBuilder; (b) a multi-argument IDLBuilder message of 2-5 corpus values; (c) an untyped (environment, types, values) message through IDLArgs::to_bytes_with_types with generated recursive environments, aliases of primitives, alias chains, shared definitions and references (1-3 arguments). Oracle: an independent decoder written from the binary grammar parses the bytes completely in strict mode (composite-only table, strictly ascending field ids and method names, indices in range, minimal (S)LEB128 everywhere, variant index selecting the field of the value's id), reads argument types bisimilar to the Rust/declared types and the abstract values computed from the Rust/abstract value; encoding the same arguments again gives identical bytes. Non-trivial = the message has >= 1 table entry and a non-default value; distinct = distinct message bytes."
    }
    fn assumptions(&self) -> Vec<String> {
        vec!["no byte-for-byte expectation on table layout (the spec allows many)".into()]
    }
    fn max_len(&self) -> usize {
        1024
    }
    fn cases(&self, tier: Tier) -> u64 {
        match tier {
            Tier::Quick => 1_000_000,
            Tier::Thorough => 40_000_000,
        }
    }
    fn one_case(&self, data: &[u8], ctx: &mut Ctx) -> Outcome {
        let reg = registry();
        let mut e = Ent::new(data);
        match e.below(4) {
            0 | 1 => {
                // (a) single native value
                let i = e.below(reg.len());
                let ops = reg[i].as_ref();
                let api = *e.pick(&[Api::Macros, Api::Args, Api::Builder]);
                let n = e.range(0, 200);
                let ent = e.bytes(n);
                let enc = match ops.gen_encode(&mut Ent::new(&ent), 3, api) {
                    Ok(Ok(x)) => x,
                    Ok(Err(err)) => return Outcome::Fail(Failure::new(format!("encode-fails:{}", ops.name()), err)),
                    Err(p) => return Outcome::Fail(Failure::new(format!("encode:{}", p.sig()), p.message)),
                };
                let enc2 = match ops.gen_encode(&mut Ent::new(&ent), 3, api) {
                    Ok(Ok(x)) => x,
                    _ => return Outcome::Fail(Failure::new("encode:second-call-fails", ops.name().to_string())),
                };
                if enc.bytes != enc2.bytes {
                    return Outcome::Fail(Failure::new(
                        format!("not-deterministic:{}", ops.name()),
                        format!("{} vs {}", hex::encode(&enc.bytes), hex::encode(&enc2.bytes)),
                    ));
                }
                let (g, root) = match corpus_graph(ops) {
                    Ok(x) => x,
                    Err(why) => return Outcome::Fail(Failure::new(format!("type-export-fails:{}", ops.name()), why)),
                };
                for t in ops.tags() {
                    ctx.class(t);
                }
                ctx.class("native-single");
                if let Err(f) = conforms(&enc.bytes, &[(&g, root, &enc.wire)], "native") {
                    return Outcome::Fail(Failure::new(
                        format!("{}:{}", f.sig, ops.name()),
                        format!("{}\ntype {} value {}", f.msg, ops.name(), show(&enc.wire)),
                    ));
                }
                if !enc.is_default && enc.bytes.get(4) != Some(&0) {
                    ctx.nontrivial(digest_of(&enc.bytes));
                }
                ctx.sample(|| format!("{} = {} -> {}", ops.name(), show(&enc.wire), hex::encode(&enc.bytes)));
                Outcome::Pass
            }
            2 => {
                // (b) multi-argument builder message
                let n = e.range(2, 5);
                let idx: Vec<usize> = (0..n).map(|_| e.below(reg.len())).collect();
                let mut vals: Vec<RVal> = vec![];
                let r = guard(|| -> Result<Vec<u8>, String> {
                    let mut b = IDLBuilder::new();
                    for i in &idx {
                        let (w, _) = reg[*i].gen_into_builder(&mut e, 2, &mut b)?;
                        vals.push(w);
                    }
                    b.serialize_to_vec().map_err(|e| format!("{e:?}"))
                });
                let bytes = match r {
                    Ok(Ok(b)) => b,
                    Ok(Err(err)) => return Outcome::Fail(Failure::new("multi-arg:encode-fails", err)),
                    Err(p) => return Outcome::Fail(Failure::new(format!("multi-arg:{}", p.sig()), p.message)),
                };
                let graphs: Vec<(Graph, TId)> = match idx.iter().map(|i| corpus_graph(reg[*i].as_ref())).collect::<Result<Vec<_>, String>>() {
                    Ok(g) => g,
                    Err(why) => return Outcome::Fail(Failure::new("type-export-fails", why)),
                };
                let exp: Vec<(&Graph, TId, &RVal)> = graphs.iter().zip(&vals).map(|((g, t), v)| (g, *t, v)).collect();
                ctx.class("native-multi-arg");
                let names = idx.iter().map(|i| reg[*i].name()).collect::<Vec<_>>().join(", ");
                if let Err(f) = conforms(&bytes, &exp, "native-multi") {
                    return Outcome::Fail(Failure::new(f.sig, format!("{}\ntypes ({names})", f.msg)));
                }
                if bytes.get(4) != Some(&0) {
                    ctx.nontrivial(digest_of(&bytes));
                }
                ctx.sample(|| format!("({names}) -> {}", hex::encode(&bytes)));
                Outcome::Pass
            }
            _ => {
                // (c) untyped, 1-3 arguments over one environment
                let mut cfg = TypeCfg::default();
                cfg.odd_labels = e.ratio(1, 4);
                cfg.wide_table = true;
                let tr: Triple = match gen_triple(&mut e, &cfg) {
                    Some(t) => t,
                    None => return Outcome::Skip("uninhabited-type"),
                };
                // extra arguments over the same environment
                let mut b = Builder::with_graph(&tr.env, tr.graph.clone());
                let sc = crate::gen::types::Scope::empty();
                let mut tys = vec![tr.ty.clone()];
                let mut roots = vec![tr.root];
                let extra = e.below(3);
                for _ in 0..extra {
                    let t = crate::gen::types::gen_ty(&mut e, &sc, 2, &cfg);
                    if let Ok(r) = b.ty(&t) {
                        tys.push(t);
                        roots.push(r);
                    }
                }
                let g = b.graph;
                let vg = crate::gen::values::ValGen::new(&g);
                let mut vals = vec![tr.val.clone()];
                for r in roots.iter().skip(1) {
                    match vg.gen(&mut e, *r, 3) {
                        Some(v) => vals.push(v),
                        None => return Outcome::Skip("uninhabited-type"),
                    }
                }
                let cenv = rtype::env_to_candid(&tr.env);
                let ctys: Vec<_> = tys.iter().map(rtype::to_candid).collect();
                // half of the cases hand the encoder what a user might write instead of the
                // canonical value (a nat where an int is expected, null for an absent option,
                // vec nat8 spelled element by element); the bytes must be the same
                let user_form = e.bool();
                let mut used: Vec<&'static str> = vec![];
                let args = IDLArgs {
                    args: roots
                        .iter()
                        .zip(&vals)
                        .map(|(r, v)| if user_form { crate::checks::c10::to_user_form(&g, *r, v, &ById, &mut e, &mut used) } else { to_idl(&g, *r, v, &ById) })
                        .collect(),
                };
                for u in used {
                    ctx.class(u);
                }
                let bytes = match guard(|| args.to_bytes_with_types(&cenv, &ctys)) {
                    Ok(Ok(b)) => b,
                    Ok(Err(err)) => return Outcome::Fail(Failure::new("untyped:encode-fails", format!("{err:?}\n{}", tr.describe()))),
                    Err(p) => return Outcome::Fail(Failure::new(format!("untyped:{}", p.sig()), p.message)),
                };
                let bytes2 = guard(|| args.to_bytes_with_types(&cenv, &ctys)).ok().and_then(|r| r.ok());
                if bytes2.as_ref() != Some(&bytes) {
                    return Outcome::Fail(Failure::new("untyped:not-deterministic", hex::encode(&bytes)));
                }
                let exp: Vec<(&Graph, TId, &RVal)> = roots.iter().zip(&vals).map(|(r, v)| (&g, *r, v)).collect();
                ctx.class("untyped");
                if roots.len() > 1 {
                    ctx.class("untyped-multi-arg");
                }
                if !tr.env.defs.is_empty() {
                    ctx.class("with-definitions");
                }
                if let Err(f) = conforms(&bytes, &exp, "untyped") {
                    return Outcome::Fail(Failure::new(
                        f.sig,
                        format!("{}\n{}\ntypes: {}", f.msg, tr.describe(), tys.iter().map(rtype::emit_ty).collect::<Vec<_>>().join(", ")),
                    ));
                }
                if bytes.get(4) != Some(&0) {
                    ctx.nontrivial(digest_of(&bytes));
                }
                ctx.sample(|| format!("{}\n-> {}", tr.describe(), hex::encode(&bytes)));
                Outcome::Pass
            }
        }
    }
}
