use crate::engine::Check;
pub mod c02;
pub mod c09;
pub mod c16;

pub fn all() -> Vec<Box<dyn Check>> {
    vec![Box::new(c02::C02), Box::new(c09::C09), Box::new(c16::C16)]
}
