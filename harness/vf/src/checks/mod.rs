use crate::engine::Check;
pub mod c09;
pub mod c16;

pub fn all() -> Vec<Box<dyn Check>> {
    vec![Box::new(c09::C09), Box::new(c16::C16)]
}
