//! C20 Randomly generated arguments always inhabit the requested types.

use crate::engine::panics::guard;
use crate::engine::{digest_of, Check, Ctx, Failure, Outcome, Tier};
use crate::gen::types::{gen_env, gen_ty, TypeCfg};
use crate::gen::Ent;
use crate::refmodel::ridl::from_idl;
use crate::refmodel::rsub;
use crate::refmodel::rtype::{self, emit_env, emit_ty, Builder, Prim, Ty};
use crate::refmodel::rval::{inhabits, show, RVal};
use candid::types::Type;
use candid::IDLArgs;
use candid_parser::configs::{Configs, Scope, ScopePos};
use std::str::FromStr;

pub struct C20;

fn vdepth(v: &RVal) -> usize {
    1 + match v {
        RVal::Opt(Some(x)) => vdepth(x),
        RVal::Vec(vs) => vs.iter().map(vdepth).max().unwrap_or(0),
        RVal::Record(fs) => fs.iter().map(|(_, x)| vdepth(x)).max().unwrap_or(0),
        RVal::Variant(_, x) => vdepth(x),
        _ => 0,
    }
}

fn gen_config(e: &mut Ent, defs: &[String]) -> String {
    let mut s = String::from("[random]\n");
    if e.ratio(1, 2) {
        s.push_str(&format!("depth = {}\n", e.pick(&[-1i64, 0, 1, 2, 10, 100])));
    }
    if e.ratio(1, 2) {
        s.push_str(&format!("size = {}\n", e.pick(&[-1i64, 0, 1, 10, 100])));
    }
    if e.ratio(1, 2) {
        s.push_str(&format!("width = {}\n", e.pick(&[0i64, 1, 3, 10])));
    }
    if e.ratio(1, 3) {
        let pairs: [(i64, i64); 10] = [(0, 10), (-5, 5), (0, 0), (255, 256), (-129, -128), (300, 70000), (i64::MIN, i64::MAX), (10, 5), (-1, -1), (0, i64::MAX)];
        let (l, r) = *e.pick(&pairs);
        s.push_str(&format!("range = [{l}, {r}]\n"));
    }
    if e.ratio(1, 3) {
        s.push_str(&format!("text = \"{}\"\n", e.pick(&["ascii", "emoji", "name", "name.cn", "path", "country", "company", "bs", "klingon"])));
    }
    if e.ratio(1, 8) {
        let vals = ["\"42\"", "\"(42 : nat8)\"", "\"\\\"text\\\"\"", "\"null\"", "\"opt 5\"", "\"vec {}\"", "\"record {}\"", "\"true\"", "\"not a value\"", "\"principal \\\"aaaaa-aa\\\"\""];
        let k = e.range(1, 2);
        let chosen: Vec<&str> = (0..k).map(|_| *e.pick(&vals)).collect();
        s.push_str(&format!("value = [{}]\n", chosen.join(", ")));
    }
    // scoped configuration by definition name / label / method
    if !defs.is_empty() && e.ratio(1, 4) {
        let d = e.pick(defs);
        s.push_str(&format!("[random.{d}]\n"));
        if e.bool() {
            s.push_str(&format!("depth = {}\n", e.pick(&[0i64, 1, 5])));
        }
        if e.bool() {
            s.push_str(&format!("width = {}\n", e.pick(&[0i64, 2])));
        }
        if e.ratio(1, 3) {
            s.push_str("range = [1, 3]\n");
        }
    }
    if e.ratio(1, 6) {
        s.push_str("[random.\"func:m\"]\nwidth = 1\n[random.a]\ntext = \"emoji\"\n");
    }
    s
}

impl Check for C20 {
    fn id(&self) -> &'static str {
        "C20"
    }
    fn rule(&self) -> &'static str {
        "A case is (environment, argument type list, seed bytes, TOML configuration, optional method scope). Environments and types are generated (possibly recursive, with references; a separate class holds uninhabited types: empty, variant {}, variant with only empty cases, vec empty, records without a finite value). Seeds are 0-4096 bytes including empty, all-zero and all-0xff. Configurations vary depth and size in {-1, 0, 1, 2, 10, 100}, width in {0, 1, 3, 10}, range pairs in and out of the types' ranges including reversed, every documented text kind and an unknown one, value lists that do or do not fit, scoped sections per definition, label and method. Oracle: candid_parser::random::any returns Err, or Ok(args) with one value per type, each inhabiting its type (independent typing judgement), unchanged by annotate_type in both modes, encodable with to_bytes_with_types, the call terminates, with no panic and no process death (value depth relative to the configured depth is recorded as a statistic only: recursion through vec is limited by width and entropy). A hang is reported by the run-level watchdog as inconclusive. Non-trivial = Ok with a composite value; distinct = distinct (types, configuration, seed)."
    }
    fn assumptions(&self) -> Vec<String> {
        vec!["termination is observed, not proved: a hang becomes exit 2 (inconclusive)".into()]
    }
    fn max_len(&self) -> usize {
        1024
    }
    fn cases(&self, tier: Tier) -> u64 {
        match tier {
            Tier::Quick => 400_000,
            Tier::Thorough => 15_000_000,
        }
    }
    fn stack_bytes(&self) -> usize {
        64 << 20
    }
    fn one_case(&self, data: &[u8], ctx: &mut Ctx) -> Outcome {
        let mut e = Ent::new(data);
        let mut cfg = TypeCfg::default();
        cfg.odd_labels = e.ratio(1, 4);
        let uninhabited_class = e.ratio(1, 8);
        cfg.empty = uninhabited_class;
        let (mut env, sc) = gen_env(&mut e, &cfg);
        let n = e.range(0, 3);
        let mut tys: Vec<Ty> = (0..n).map(|_| gen_ty(&mut e, &sc, cfg.max_depth, &cfg)).collect();
        if uninhabited_class {
            env.defs.push(("Unin".into(), Ty::Record(vec![(rtype::Lab::Named("next".into()), Ty::var("Unin"))])));
            env.defs.push(("UninV".into(), Ty::Variant(vec![(rtype::Lab::Named("only".into()), Ty::var("UninV"))])));
            let special = [
                Ty::Prim(Prim::Empty),
                Ty::Variant(vec![]),
                Ty::Variant(vec![(rtype::Lab::Named("a".into()), Ty::Prim(Prim::Empty))]),
                Ty::vec(Ty::Prim(Prim::Empty)),
                Ty::opt(Ty::Prim(Prim::Empty)),
                Ty::var("Unin"),
                Ty::var("UninV"),
                Ty::opt(Ty::var("Unin")),
                Ty::Record(vec![(rtype::Lab::Id(0), Ty::Variant(vec![]))]),
            ];
            tys.push(e.pick(&special).clone());
            ctx.class("uninhabited-class");
        }
        let seed: Vec<u8> = match e.below(6) {
            0 => vec![],
            1 => vec![0xff; e.range(1, 4096)],
            2 => vec![0; e.range(1, 512)],
            3 => vec![1; e.range(1, 4096)],
            _ => {
                let k = e.range(0, 300);
                e.bytes_padded(k)
            }
        };
        let defs: Vec<String> = env.defs.iter().map(|d| d.0.clone()).collect();
        let toml = gen_config(&mut e, &defs);
        let scoped = e.ratio(1, 5);
        let mut b = Builder::new(&env);
        let mut roots = vec![];
        for t in &tys {
            match b.ty(t) {
                Ok(r) => roots.push(r),
                Err(_) => return Outcome::Skip("ill-formed"),
            }
        }
        let g = b.graph;
        let inh = rsub::inhabited(&g);
        let cenv = rtype::env_to_candid(&env);
        let ctys: Vec<Type> = tys.iter().map(rtype::to_candid).collect();
        let describe = || {
            format!(
                "env:\n{}types: ({})\nseed ({} bytes): {}\nconfig:\n{toml}scope: {}",
                emit_env(&env),
                tys.iter().map(emit_ty).collect::<Vec<_>>().join(", "),
                seed.len(),
                hex::encode(&seed[..seed.len().min(64)]),
                if scoped { "method m, arguments" } else { "none" }
            )
        };
        let configs = match Configs::from_str(&toml) {
            Ok(c) => c,
            Err(err) => return Outcome::Fail(Failure::new("HARNESS-bad-toml", format!("{err}\n{toml}"))),
        };
        let scope = if scoped { Some(Scope { method: "m", position: Some(ScopePos::Arg) }) } else { None };
        let r = guard(|| candid_parser::random::any(&seed, configs, &cenv, &ctys, &scope).map_err(|e| e.to_string()));
        let args: IDLArgs = match r {
            Err(p) => return Outcome::Fail(Failure::new(format!("random::any:{}", p.sig()), format!("panicked at {}: {}\n{}", p.location, p.message, describe()))),
            Ok(Err(_)) => {
                ctx.class("reports-error");
                ctx.sample(|| format!("[error] {}", describe()));
                return Outcome::Pass;
            }
            Ok(Ok(a)) => a,
        };
        ctx.class("returns-values");
        if args.args.len() != tys.len() {
            return Outcome::Fail(Failure::new("wrong-number-of-values", describe()));
        }
        let depth_cfg: i64 = toml
            .lines()
            .take_while(|l| !l.starts_with("[random."))
            .find_map(|l| l.strip_prefix("depth = ").and_then(|x| x.parse().ok()))
            .unwrap_or(10);
        let mut composite = false;
        for (i, v) in args.args.iter().enumerate() {
            let rv = match from_idl(v) {
                Some(rv) => rv,
                None => return Outcome::Fail(Failure::new("value-not-annotated", format!("{v:?}\n{}", describe()))),
            };
            if !inhabits(&g, &rv, roots[i]) {
                return Outcome::Fail(Failure::new(
                    "value-does-not-inhabit-type",
                    format!("argument {i}: {} is not of type {}\n{}", show(&rv), emit_ty(&tys[i]), describe()),
                ));
            }
            for fp in [true, false] {
                match guard(|| v.annotate_type(fp, &cenv, &ctys[i])) {
                    Ok(Ok(a)) if from_idl(&a).as_ref() == Some(&rv) => {}
                    other => {
                        return Outcome::Fail(Failure::new(
                            "annotate-changes-or-rejects-generated-value",
                            format!("annotate_type({fp}) of {v:?}: {:?}\n{}", other.map(|r| r.map(|a| format!("{a:?}")).map_err(|e| e.to_string())).map_err(|p| p.message), describe()),
                        ))
                    }
                }
            }
            if inh[roots[i]] {
                let bound = depth_cfg.max(0) as usize + 2 * g.nodes.len() + 8;
                ctx.note_max("max_value_depth_minus_configured_depth", vdepth(&rv) as i64 - depth_cfg.max(0));
                // statistic only: recursion through `vec` is limited by width and entropy, not by
                // depth, so no verdict is attached (termination itself is what is judged)
                if vdepth(&rv) > bound {
                    ctx.class("value-deeper-than-depth-budget (statistic)");
                }
            }
            composite |= matches!(rv, RVal::Opt(Some(_)) | RVal::Vec(_) | RVal::Record(_) | RVal::Variant(..));
        }
        match guard(|| args.to_bytes_with_types(&cenv, &ctys)) {
            Ok(Ok(_)) => {}
            other => {
                return Outcome::Fail(Failure::new(
                    "generated-values-do-not-encode",
                    format!("{:?}\n{}", other.map(|r| r.map(|_| ()).map_err(|e| e.to_string())).map_err(|p| p.message), describe()),
                ))
            }
        }
        if composite {
            let k = format!("{}|{}|{}", describe(), args, toml);
            ctx.nontrivial(digest_of(k.as_bytes()));
        }
        ctx.sample(|| format!("{}\n=> {}", describe(), args));
        Outcome::Pass
    }
}
