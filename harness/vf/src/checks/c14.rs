//! C14 The type checker accepts exactly the well-formed programs.

use crate::engine::panics::guard;
use crate::engine::{digest_of, Check, Ctx, Failure, Outcome, Tier};
use crate::gen::labels::COLLISIONS;
use crate::gen::prog::{emit, gen_prog, Prog};
use crate::gen::types::TypeCfg;
use crate::gen::values::ValGen;
use crate::gen::Ent;
use crate::refmodel::rcheck;
use crate::refmodel::ridl::{to_idl, ById};
use crate::refmodel::rtype::{rhash, Builder, Lab, Mode, Prim, Ty};
use candid::types::subtype::{subtype_with_config, Gamma, OptReport};
use candid::types::{Type, TypeEnv, TypeInner};
use candid::IDLArgs;
use candid_parser::{check_prog, IDLProg};

pub struct C14;

const FAULTS: &[&str] = &[
    "undefined-name",
    "duplicate-definition",
    "alias-cycle",
    "duplicate-field-id",
    "duplicate-method",
    "method-not-function",
    "oneway-with-results",
    "two-annotations",
    "duplicate-argument-names",
    "actor-not-service",
    "nested-service-constructor",
];

fn count_subterms(t: &Ty) -> usize {
    1 + match t {
        Ty::Opt(x) | Ty::Vec(x) => count_subterms(x),
        Ty::Record(fs) | Ty::Variant(fs) => fs.iter().map(|(_, x)| count_subterms(x)).sum(),
        Ty::Func { args, rets, .. } => args.iter().chain(rets).map(count_subterms).sum(),
        Ty::Service(ms) => ms.iter().map(|(_, x)| count_subterms(x)).sum(),
        Ty::Class(a, x) => a.iter().map(count_subterms).sum::<usize>() + count_subterms(x),
        _ => 0,
    }
}

/// Replace the `target`-th subterm (preorder) by `f(subterm)`. Method types are
/// only replaced when `allow_methods` (a method must stay a function or a name).
fn map_at(t: &Ty, target: &mut isize, f: &mut dyn FnMut(&Ty) -> Ty, in_method: bool) -> Ty {
    if *target == 0 {
        *target = -1;
        if in_method {
            // keep the grammar: a method type is a function signature or a name
            let r = f(t);
            return match r {
                Ty::Func { .. } | Ty::Var(_) => r,
                _ => t.clone(),
            };
        }
        return f(t);
    }
    if *target > 0 {
        *target -= 1;
    }
    match t {
        Ty::Opt(x) => Ty::opt(map_at(x, target, f, false)),
        Ty::Vec(x) => Ty::vec(map_at(x, target, f, false)),
        Ty::Record(fs) => Ty::Record(fs.iter().map(|(l, x)| (l.clone(), map_at(x, target, f, false))).collect()),
        Ty::Variant(fs) => Ty::Variant(fs.iter().map(|(l, x)| (l.clone(), map_at(x, target, f, false))).collect()),
        Ty::Func { args, rets, modes } => Ty::Func {
            args: args.iter().map(|x| map_at(x, target, f, false)).collect(),
            rets: rets.iter().map(|x| map_at(x, target, f, false)).collect(),
            modes: modes.clone(),
        },
        Ty::Service(ms) => Ty::Service(ms.iter().map(|(n, x)| (n.clone(), map_at(x, target, f, true))).collect()),
        Ty::Class(a, x) => Ty::Class(a.iter().map(|y| map_at(y, target, f, false)).collect(), Box::new(map_at(x, target, f, false))),
        other => other.clone(),
    }
}

/// Apply `f` at a random subterm position of the program (definitions and actor).
fn edit_somewhere(e: &mut Ent, p: &Prog, f: &mut dyn FnMut(&Ty) -> Ty) -> Prog {
    let mut sizes: Vec<usize> = p.env.defs.iter().map(|(_, t)| count_subterms(t)).collect();
    if let Some(a) = &p.actor {
        sizes.push(count_subterms(a));
    }
    let total: usize = sizes.iter().sum();
    let mut q = p.clone();
    if total == 0 {
        // no positions: add a definition holding the faulty term
        q.env.defs.push(("Holder".into(), f(&Ty::Prim(Prim::Nat))));
        return q;
    }
    let mut k = e.below(total);
    for (i, s) in sizes.iter().enumerate() {
        if k < *s {
            let mut target = k as isize;
            if i < q.env.defs.len() {
                let body = q.env.defs[i].1.clone();
                // keep aliases of the definition itself out of it: the body's root may be replaced freely
                q.env.defs[i].1 = map_at(&body, &mut target, f, false);
            } else {
                let a = q.actor.clone().unwrap();
                // the root of the actor must stay a service / constructor: skip position 0 there
                if target == 0 {
                    target = 1.min(*s as isize - 1);
                    if target == 0 {
                        q.env.defs.push(("Holder".into(), f(&Ty::Prim(Prim::Nat))));
                        return q;
                    }
                }
                q.actor = Some(map_at(&a, &mut target, f, false));
            }
            return q;
        }
        k -= s;
    }
    q
}

fn fresh_name(p: &Prog, base: &str) -> String {
    let mut n = base.to_string();
    while p.env.get(&n).is_some() {
        n.push('_');
    }
    n
}

/// Returns the mutant and text appended verbatim to the program (for faults
/// that exist only at the text level).
fn inject(e: &mut Ent, p: &Prog, fault: &str) -> (Prog, String) {
    let mut q = p.clone();
    let mut extra = String::new();
    match fault {
        "undefined-name" => {
            q = edit_somewhere(e, p, &mut |_| Ty::var("Undefined_type_name"));
        }
        "duplicate-definition" => {
            if q.env.defs.is_empty() {
                q.env.defs.push(("D".into(), Ty::Prim(Prim::Nat)));
            }
            let i = e.below(q.env.defs.len());
            let (n, t) = q.env.defs[i].clone();
            let body = if e.bool() { t } else { Ty::Prim(Prim::Text) };
            let at = e.below(q.env.defs.len() + 1);
            q.env.defs.insert(at, (n, body));
        }
        "alias-cycle" => {
            let k = e.range(1, 5);
            let base = fresh_name(p, "Cyc");
            for i in 0..k {
                q.env.defs.push((format!("{base}{i}"), Ty::Var(format!("{base}{}", (i + 1) % k))));
            }
            // sometimes referenced from elsewhere
            if e.bool() {
                let target = format!("{base}0");
                q = edit_somewhere(e, &q, &mut |_| Ty::Var(target.clone()));
            }
        }
        "duplicate-field-id" => {
            let style = e.below(4);
            let (a, b): (Lab, Lab) = match style {
                0 => (Lab::Named("dup".into()), Lab::Named("dup".into())),
                1 => (Lab::Named("name".into()), Lab::Id(rhash("name"))),
                2 => {
                    let (x, y) = COLLISIONS[e.below(COLLISIONS.len())];
                    (Lab::Named(x.into()), Lab::Named(y.into()))
                }
                _ => {
                    let n = *e.pick(&[0u32, 7, u32::MAX]);
                    (Lab::Id(n), Lab::Id(n))
                }
            };
            let variant = e.bool();
            q = edit_somewhere(e, p, &mut |t| {
                let mut fs: Vec<(Lab, Ty)> = match t {
                    Ty::Record(fs) if !variant => fs.clone(),
                    Ty::Variant(fs) if variant => fs.clone(),
                    _ => vec![],
                };
                fs.retain(|(l, _)| l.id() != a.id());
                fs.insert(0, (a.clone(), Ty::Prim(Prim::Nat)));
                fs.push((b.clone(), Ty::Prim(Prim::Text)));
                if variant {
                    Ty::Variant(fs)
                } else {
                    Ty::Record(fs)
                }
            });
        }
        "duplicate-method" => {
            let f = Ty::Func { args: vec![], rets: vec![], modes: vec![] };
            let f2 = Ty::Func { args: vec![Ty::Prim(Prim::Nat)], rets: vec![], modes: vec![Mode::Query] };
            q = edit_somewhere(e, p, &mut |t| {
                let mut ms: Vec<(String, Ty)> = match t {
                    Ty::Service(ms) => ms.clone(),
                    _ => vec![],
                };
                ms.retain(|(n, _)| n != "dup");
                ms.insert(0, ("dup".into(), f.clone()));
                ms.push(("dup".into(), f2.clone()));
                Ty::Service(ms)
            });
        }
        "method-not-function" => {
            // a chain of aliases of length 0..3 ending in a non-function
            let k = e.range(0, 3);
            let base = fresh_name(p, "NotFunc");
            let end = match e.below(4) {
                0 => Ty::Prim(Prim::Nat),
                1 => Ty::Record(vec![]),
                2 => Ty::Service(vec![]),
                _ => Ty::opt(Ty::Func { args: vec![], rets: vec![], modes: vec![] }),
            };
            for i in 0..k {
                q.env.defs.push((format!("{base}{i}"), Ty::Var(format!("{base}{}", i + 1))));
            }
            q.env.defs.push((format!("{base}{k}"), end));
            let name = format!("{base}0");
            // the alias is sometimes also used, legitimately, by a definition that the
            // checker visits before (or after) the service
            if e.bool() {
                let user = fresh_name(&q, if e.bool() { "A0_uses_alias" } else { "zz_uses_alias" });
                q.env.defs.push((user, Ty::Record(vec![(Lab::Named("x".into()), Ty::opt(Ty::Var(name.clone())))])));
            }
            let q0 = q.clone();
            q = edit_somewhere(e, &q0, &mut |t| {
                let mut ms: Vec<(String, Ty)> = match t {
                    Ty::Service(ms) => ms.clone(),
                    _ => vec![],
                };
                ms.retain(|(n, _)| n != "bad_method");
                ms.push(("bad_method".into(), Ty::Var(name.clone())));
                Ty::Service(ms)
            });
        }
        "oneway-with-results" => {
            q = edit_somewhere(e, p, &mut |_| Ty::Func { args: vec![], rets: vec![Ty::Prim(Prim::Nat)], modes: vec![Mode::Oneway] });
        }
        "two-annotations" => {
            let m = *e.pick(&[[Mode::Query, Mode::Oneway], [Mode::Query, Mode::Query], [Mode::CompositeQuery, Mode::Query]]);
            q = edit_somewhere(e, p, &mut |_| Ty::Func { args: vec![], rets: vec![], modes: m.to_vec() });
        }
        "duplicate-argument-names" => {
            let n = fresh_name(p, "DupArgs");
            extra = match e.below(3) {
                0 => format!("type {n} = func (a : nat, a : text) -> ();\n"),
                1 => format!("type {n} = func () -> (r : nat, \"r\" : text);\n"),
                _ => format!("type {n} = service {{ m : (x : nat, y : nat, x : nat) -> () }};\n"),
            };
        }
        "actor-not-service" => {
            let n = fresh_name(p, "NotService");
            q.env.defs.push((n.clone(), match e.below(3) {
                0 => Ty::Record(vec![]),
                1 => Ty::Func { args: vec![], rets: vec![], modes: vec![] },
                _ => Ty::Prim(Prim::Principal),
            }));
            let alias = fresh_name(&q, "AliasOfNotService");
            q.env.defs.push((alias.clone(), Ty::Var(n.clone())));
            let target = Ty::Var(if e.bool() { n } else { alias });
            q.actor = Some(if e.bool() { target } else { Ty::Class(vec![Ty::Prim(Prim::Nat)], Box::new(target)) });
        }
        _ => {
            // service constructor anywhere but as the main actor: only expressible in text
            let n = fresh_name(p, "Ctor");
            extra = format!("type {n} = (nat) -> service {{}};\n");
        }
    }
    (q, extra)
}

fn closure_checks(env: &TypeEnv, actor: &Option<Type>, p: &Prog) -> Result<(), Failure> {
    let r = guard(|| -> Result<(), String> {
        for (name, ty) in env.0.iter() {
            let v: Type = TypeInner::Var(name.clone()).into();
            env.trace_type(&v).map_err(|e| format!("trace_type({name}): {e}"))?;
            let _ = env.as_func(&v);
            let _ = env.as_service(&v);
            let _ = env.rec_find_type(name).map_err(|e| format!("rec_find_type({name}): {e}"))?;
            subtype_with_config(OptReport::Silence, &mut Gamma::new(), env, &v, &v).map_err(|e| format!("{name} <: {name}: {e}"))?;
            let _ = ty.to_string();
        }
        if let Some(a) = actor {
            let _ = candid_parser::bindings::analysis::chase_actor(env, a).map_err(|e| format!("chase_actor: {e}"))?;
            let _ = env.as_service(a).map_err(|e| format!("as_service(actor): {e}"))?;
        }
        Ok(())
    });
    match r {
        Err(pn) => return Err(Failure::new(format!("closed-environment:{}", pn.sig()), format!("panicked at {}: {}", pn.location, pn.message))),
        Ok(Err(msg)) => return Err(Failure::new("closed-environment:operation-fails", msg)),
        Ok(Ok(())) => {}
    }
    // encode an inhabitant of every definition
    let mut b = Builder::new(&p.env);
    let mut roots = vec![];
    for (n, _) in &p.env.defs {
        if let Ok(r) = b.ty(&Ty::Var(n.clone())) {
            roots.push((n.clone(), r));
        }
    }
    let g = b.graph;
    let vg = ValGen::new(&g);
    let mut e = Ent::new(&[]);
    for (n, r) in roots {
        if let Some(v) = vg.gen(&mut e, r, 2) {
            let idl = to_idl(&g, r, &v, &ById);
            let t: Type = TypeInner::Var(n.clone()).into();
            match guard(|| IDLArgs { args: vec![idl] }.to_bytes_with_types(env, &[t])) {
                Ok(Ok(_)) => {}
                Ok(Err(err)) => return Err(Failure::new("closed-environment:encode-fails", format!("encoding an inhabitant of {n}: {err}"))),
                Err(pn) => return Err(Failure::new(format!("closed-environment:{}", pn.sig()), pn.message)),
            }
        }
    }
    Ok(())
}

impl Check for C14 {
    fn id(&self) -> &'static str {
        "C14"
    }
    fn rule(&self) -> &'static str {
        "A case is a program text: a generated well-formed program (0-6 possibly mutually recursive definitions over every constructor, aliases and alias chains, a main service / named service / service constructor with init args; printed with random use of shorthands, quoting, hex/underscored ids, comments, argument names) or a single-fault mutant of one with the fault placed at a random type position (inside nested records, function arguments, methods, init args): undefined name, duplicate definition, alias cycle of length 1-5, duplicate field id (same name, name vs its numeric id, hash-colliding names, same number), duplicate method, method whose type is a non-function behind an alias chain of length 0-3, oneway with results, two annotations, duplicate argument names, main actor that is not a service (directly, through an alias, as a constructor result), service constructor in a definition. Oracle: an independent well-formedness checker; accepted iff it accepts; the known verdict of each fault class is re-derived by it. For accepted programs the environment is closed: trace_type, as_func, as_service, rec_find_type, self-subtyping, chase_actor and encoding an inhabitant of every definition return without panicking. Non-trivial = a mutant, or a program with >= 3 definitions; distinct = distinct program text."
    }
    fn assumptions(&self) -> Vec<String> {
        vec!["imports (check_file) are not generated; only single-file programs".into()]
    }
    fn max_len(&self) -> usize {
        768
    }
    fn cases(&self, tier: Tier) -> u64 {
        match tier {
            Tier::Quick => 600_000,
            Tier::Thorough => 25_000_000,
        }
    }
    /// Direct cases: program text; expected verdict in the first line comment `// accept` or `// reject`.
    fn direct_case(&self, data: &[u8], _ctx: &mut Ctx) -> Outcome {
        let text = match std::str::from_utf8(data) {
            Ok(t) => t,
            Err(_) => return Outcome::Skip("not-utf8"),
        };
        let want_accept = text.starts_with("// accept");
        let got = guard(|| text.parse::<IDLProg>().map_err(|e| e.to_string()).and_then(|ast| check_prog(&mut TypeEnv::new(), &ast).map(|_| ()).map_err(|e| e.to_string())));
        match got {
            Err(p) => Outcome::Fail(Failure::new(format!("check_prog:{}", p.sig()), p.message)),
            Ok(r) if r.is_ok() == want_accept => Outcome::Pass,
            Ok(r) => Outcome::Fail(Failure::new(if want_accept { "rejects-well-formed-program" } else { "accepts-ill-formed-program" }, format!("{r:?}\n{text}"))),
        }
    }
    fn one_case(&self, data: &[u8], ctx: &mut Ctx) -> Outcome {
        let mut e = Ent::new(data);
        let mut cfg = TypeCfg::default();
        cfg.odd_labels = e.ratio(1, 3);
        cfg.max_defs = 6;
        let (p, _sc) = gen_prog(&mut e, &cfg);
        // generator soundness: the reference accepts what is well-formed by construction
        if let Err(why) = rcheck::check(&p.env, p.actor.as_ref()) {
            return Outcome::Fail(Failure::new("HARNESS-generator-unsound", format!("{why:?}\n{}", crate::gen::prog::emit_plain(&p))));
        }
        let mutant = e.ratio(3, 5);
        let (q, extra, fault) = if mutant {
            let fault = *e.pick(FAULTS);
            let (q, extra) = inject(&mut e, &p, fault);
            (q, extra, Some(fault))
        } else {
            (p.clone(), String::new(), None)
        };
        let want_accept = match fault {
            None => true,
            Some(_) => {
                // re-derive the verdict; text-level faults are rejects by construction
                if extra.is_empty() {
                    match rcheck::check(&q.env, q.actor.as_ref()) {
                        Ok(()) => return Outcome::Skip("mutation-had-no-effect"),
                        Err(_) => false,
                    }
                } else {
                    false
                }
            }
        };
        let mut text = emit(&mut e, &q);
        if !extra.is_empty() {
            text = format!("{extra}{text}");
        }
        ctx.class(fault.unwrap_or("well-formed"));
        let parsed = match guard(|| text.parse::<IDLProg>()) {
            Ok(r) => r,
            Err(pn) => return Outcome::Fail(Failure::new(format!("parse:{}", pn.sig()), format!("{}\n{text}", pn.message))),
        };
        let mut env = TypeEnv::new();
        let verdict: Result<Option<Type>, String> = match parsed {
            Err(err) => Err(format!("parse error: {err}")),
            Ok(ast) => match guard(|| check_prog(&mut env, &ast)) {
                Ok(r) => r.map_err(|e| e.to_string()),
                Err(pn) => return Outcome::Fail(Failure::new(format!("check_prog:{}", pn.sig()), format!("{}\n{text}", pn.message))),
            },
        };
        match (&verdict, want_accept) {
            (Ok(_), false) => {
                return Outcome::Fail(Failure::new(
                    format!("accepts-ill-formed-program:{}", fault.unwrap_or("?")),
                    format!("fault {fault:?} (reference: {:?})\n{text}", rcheck::check(&q.env, q.actor.as_ref()).err()),
                ))
            }
            (Err(err), true) => {
                return Outcome::Fail(Failure::new("rejects-well-formed-program", format!("{err}\n{text}")));
            }
            _ => {}
        }
        if let Ok(actor) = &verdict {
            if let Err(f) = closure_checks(&env, actor, &q) {
                return Outcome::Fail(Failure::new(f.sig, format!("{}\n{text}", f.msg)));
            }
        }
        if fault.is_some() || q.env.defs.len() >= 3 {
            ctx.nontrivial(digest_of(text.as_bytes()));
        }
        ctx.sample(|| format!("[{}] {}", fault.unwrap_or("well-formed"), text));
        Outcome::Pass
    }
}
