//! C06 Decoding arbitrary bytes never panics, crashes or over-allocates.

use crate::checks::c02::{gen_case, mutate_bytes};
use crate::corpus::registry::{registry, Api};
use crate::engine::alloc;
use crate::engine::panics::guard;
use crate::engine::{digest_of, Check, Ctx, Failure, Outcome, Tier};
use crate::gen::types::{gen_env, gen_ty, TypeCfg};
use crate::gen::Ent;
use crate::refmodel::rtype::{self, Ty};
use crate::refmodel::rwire::{decode_message, parse_header, put_sleb, put_uleb};
use candid::de::DecoderConfig;
use candid::types::{Type, TypeEnv};
use candid::IDLArgs;

pub struct C06;

#[derive(Clone, Debug)]
pub enum Target {
    Native(usize),
    Untyped(rtype::Env, Vec<Ty>),
    NoType,
}

#[derive(Clone, Debug)]
pub struct Cfg {
    pub decoding: Option<usize>,
    pub skipping: Option<usize>,
    pub full_error: bool,
    pub max_type_len: Option<usize>,
    pub stack: usize,
}

fn decoder_config(c: &Cfg) -> DecoderConfig {
    let mut d = DecoderConfig::new();
    if let Some(q) = c.decoding {
        d.set_decoding_quota(q);
    }
    if let Some(q) = c.skipping {
        d.set_skipping_quota(q);
    }
    if let Some(n) = c.max_type_len {
        d.set_max_type_len(n);
    }
    d.set_full_error_message(c.full_error);
    d
}

fn deep_message(e: &mut Ent) -> (Vec<u8>, &'static str) {
    let depth = match e.below(5) {
        0 => e.range(1, 50),
        1 => e.range(50, 600),
        2 => e.range(600, 5000),
        _ => e.range(5000, 20000),
    };
    let mut m = b"DIDL".to_vec();
    match e.below(5) {
        0 => {
            // T = opt T
            m.extend([1, 0x6e, 0, 1, 0]);
            m.extend(std::iter::repeat(1u8).take(depth));
            m.push(0);
            (m, "deep-opt")
        }
        1 => {
            // T = vec T: each level a one-element vector
            m.extend([1, 0x6d, 0, 1, 0]);
            m.extend(std::iter::repeat(1u8).take(depth));
            m.push(0);
            (m, "deep-vec")
        }
        2 => {
            // T = record { 0 : opt T }
            m.extend([2, 0x6c, 1, 0, 1, 0x6e, 0, 1, 0]);
            m.extend(std::iter::repeat(1u8).take(depth));
            m.push(0);
            (m, "deep-record-opt")
        }
        3 => {
            // List shape: record { head : int; tail : opt List } as the derive emits it
            // head hash 1158359328? use ids 0 and 1 instead
            m.extend([2, 0x6c, 2, 0, 0x7c, 1, 1, 0x6e, 0, 1, 0]);
            for _ in 0..depth {
                m.extend([5, 1]);
            }
            m.extend([5, 0]);
            (m, "deep-list")
        }
        _ => {
            // T = variant { 0 : null; 1 : T }
            m.extend([1, 0x6b, 2, 0, 0x7f, 1, 0, 1, 0]);
            m.extend(std::iter::repeat(1u8).take(depth));
            m.push(0);
            (m, "deep-variant")
        }
    }
}

/// A length-prefixed item (blob, text, primitive vector, principal, method name,
/// future-type value) whose declared length is far beyond, or just beyond, the data
/// that follows. Decoding must fail fast whatever the quota: no allocation sized
/// from the prefix, no arithmetic overflow on length x element size, no cursor
/// beyond the input.
/// Choices of `length_bomb`: drawn from the entropy buffer (search) or taken from a
/// fixed list (the enumerated family, where every combination is run).
enum Chooser<'a, 'b> {
    Ent(&'a mut Ent<'b>),
    Fixed(Vec<usize>, usize),
}
impl Chooser<'_, '_> {
    fn below(&mut self, n: usize) -> usize {
        match self {
            Chooser::Ent(e) => e.below(n),
            Chooser::Fixed(v, i) => {
                let x = v.get(*i).copied().unwrap_or(0);
                *i += 1;
                x % n.max(1)
            }
        }
    }
    fn range(&mut self, lo: usize, hi: usize) -> usize {
        match self {
            Chooser::Ent(e) => e.range(lo, hi),
            Chooser::Fixed(..) => lo + self.below(hi - lo + 1),
        }
    }
    fn u8(&mut self) -> u8 {
        match self {
            Chooser::Ent(e) => e.u8(),
            Chooser::Fixed(..) => 0xab,
        }
    }
    fn pick<'x, T>(&mut self, xs: &'x [T]) -> &'x T {
        let i = self.below(xs.len());
        &xs[i]
    }
}

fn length_bomb(e: &mut Chooser) -> (Vec<u8>, Option<&'static str>, &'static str) {
    let data: Vec<u8> = (0..e.range(0, 12)).map(|_| e.u8()).collect();
    let kind = e.below(12);
    let elem: u64 = match kind {
        2 => 2,
        3 => 4,
        4 | 5 => 8,
        _ => 1,
    };
    let near = |x: u64, e: &mut Chooser| -> u64 { x.wrapping_add(*e.pick(&[0u64, 1, 2, u64::MAX, u64::MAX - 1])) };
    let len: u64 = match e.below(8) {
        0 => data.len() as u64 / elem + 1,
        1 => data.len() as u64 + *e.pick(&[1u64, 2, 3, 7]),
        2 => near(u64::MAX / elem, e),
        3 => near((u64::MAX / elem) / 2 + 1, e),
        4 => *e.pick(&[1u64 << 31, 1 << 32, (1 << 32) - 1, 1 << 40]),
        5 => *e.pick(&[1u64 << 61, (1 << 61) - 1, 1 << 62, (1 << 62) - 1, 1 << 63, (1 << 63) - 1, u64::MAX]),
        6 => near(1u64 << 63, e),
        _ => near(u64::MAX, e),
    };
    let mut m = b"DIDL".to_vec();
    let mut native = None;
    match kind {
        0 => {
            m.extend([1, 0x6d, 0x7b, 1, 0]);
            put_uleb(&mut m, len);
            native = Some(*e.pick(&["Vec<u8>", "ByteBuf", "Option<Vec<u8>>", "B8", "B8T"]));
        }
        1 => {
            m.extend([0, 1, 0x71]);
            put_uleb(&mut m, len);
            native = Some(*e.pick(&["String", "Option<String>", "Vec<u8>"]));
        }
        2 => {
            m.extend([1, 0x6d, *e.pick(&[0x7au8, 0x76]), 1, 0]);
            put_uleb(&mut m, len);
            native = Some(*e.pick(&["Vec<u16>", "Vec<i16>", "Option<Vec<u16>>"]));
        }
        3 => {
            m.extend([1, 0x6d, *e.pick(&[0x79u8, 0x75, 0x73]), 1, 0]);
            put_uleb(&mut m, len);
            native = Some(*e.pick(&["Vec<u32>", "Vec<i32>", "Vec<f32>"]));
        }
        4 => {
            m.extend([1, 0x6d, *e.pick(&[0x78u8, 0x74, 0x72]), 1, 0]);
            put_uleb(&mut m, len);
            native = Some(*e.pick(&["Vec<u64>", "Vec<i64>", "Vec<f64>", "BU64"]));
        }
        5 => {
            if e.below(2) == 0 {
                // nested: vec vec nat64 with one inner vector
                m.extend([2, 0x6d, 1, 0x6d, 0x78, 1, 0, 1]);
                put_uleb(&mut m, len);
                native = Some("Vec<Vec<u64>>");
            } else {
                // vec of non-primitive elements (blobs, texts): the outer count is hostile
                m.extend([2, 0x6d, 1, 0x6d, 0x7b, 1, 0]);
                put_uleb(&mut m, len);
                native = Some(*e.pick(&["Vec<Vec<u8>>", "B8T", "B8E", "BAll", "BP", "Vec<String>"]));
            }
        }
        6 => {
            m.extend([1, 0x6d, *e.pick(&[0x7eu8, 0x77]), 1, 0]);
            put_uleb(&mut m, len);
            native = Some(*e.pick(&["Vec<bool>", "Vec<i8>"]));
        }
        7 => {
            // principal
            m.extend([0, 1, 0x68, 1]);
            put_uleb(&mut m, len);
            native = Some("Principal");
        }
        8 => {
            // func reference: principal ok, method name length hostile
            m.extend([1, 0x6a, 0, 0, 0, 1, 0, 1, 1, 1, 0xaa]);
            put_uleb(&mut m, len);
            native = Some("FuncRef");
        }
        9 | 10 => {
            // a value of a future type: m = declared data length, n = number of references
            m.push(1);
            put_sleb(&mut m, *e.pick(&[-25i64, -26, -40, -64]));
            let desc = e.range(0, 2);
            put_uleb(&mut m, desc as u64);
            m.extend(std::iter::repeat(0u8).take(desc));
            m.extend([1, 0]);
            put_uleb(&mut m, len);
            put_uleb(&mut m, if kind == 9 { 0 } else { *e.pick(&[0u64, 1, 1 << 32, u64::MAX]) });
        }
        _ => {
            // record { blob; text } with the second length hostile
            m.extend([2, 0x6c, 2, 0, 1, 1, 0x71, 0x6d, 0x7b, 1, 0]);
            m.extend([2, 7, 7]);
            put_uleb(&mut m, len);
        }
    }
    m.extend(&data);
    // sometimes more arguments follow (the item is then skipped, not decoded)
    (m, native, "length-bomb")
}

fn bomb_message(e: &mut Ent, quota_set: bool) -> (Vec<u8>, &'static str) {
    let len: u64 = if quota_set {
        *e.pick(&[1u64 << 10, 1 << 20, 1 << 32, 1 << 40, (1 << 62) - 1, 1 << 62, u64::MAX >> 1])
    } else {
        *e.pick(&[1u64 << 8, 1 << 12, 1 << 16, 100_000])
    };
    let mut m = b"DIDL".to_vec();
    let which = e.below(6);
    match which {
        0 => {
            m.extend([1, 0x6d, 0x7f, 1, 0]);
            put_uleb(&mut m, len);
        }
        1 => {
            m.extend([1, 0x6d, 0x70, 1, 0]);
            put_uleb(&mut m, len);
        }
        2 => {
            // vec record {}
            m.extend([2, 0x6d, 1, 0x6c, 0, 1, 0]);
            put_uleb(&mut m, len);
        }
        3 => {
            // vec vec null: outer length small, inner huge
            m.extend([2, 0x6d, 1, 0x6d, 0x7f, 1, 0]);
            put_uleb(&mut m, 3);
            for _ in 0..3 {
                put_uleb(&mut m, len);
            }
        }
        4 => {
            // vec of records of nulls
            m.extend([2, 0x6d, 1, 0x6c, 2, 0, 0x7f, 1, 0x70, 1, 0]);
            put_uleb(&mut m, len);
        }
        _ => {
            // vec nat8 with a length far beyond the input
            m.extend([1, 0x6d, 0x7b, 1, 0]);
            put_uleb(&mut m, len);
            m.extend([1, 2, 3]);
        }
    }
    (m, "zero-size-bomb")
}

fn hostile_header(e: &mut Ent) -> (Vec<u8>, &'static str) {
    let big: u64 = *e.pick(&[1u64 << 32, (1 << 32) - 1, 1 << 50, 1 << 60, 1 << 62, u64::MAX, 10_001, 10_000, 65_536]);
    let mut m = b"DIDL".to_vec();
    match e.below(9) {
        0 => {
            put_uleb(&mut m, big);
            m.extend([0x6e, 0x7f]);
        }
        1 => {
            m.extend([1, 0x6a]);
            put_uleb(&mut m, big);
        }
        2 => {
            m.extend([1, 0x6a, 0]);
            put_uleb(&mut m, big);
        }
        3 => {
            m.extend([1, 0x6c]);
            put_uleb(&mut m, big);
            m.extend([0, 0x7f]);
        }
        4 => {
            m.extend([1, 0x69, 1]);
            put_uleb(&mut m, big);
            m.extend(b"name");
        }
        5 => {
            m.push(1);
            put_sleb(&mut m, -30);
            put_uleb(&mut m, big);
        }
        6 => {
            // many table entries for real (up to the cap and one beyond)
            let n = *e.pick(&[9_999u64, 10_000, 10_001, 2000]);
            put_uleb(&mut m, n);
            for _ in 0..n {
                m.extend([0x6e, 0x7f]);
            }
            m.extend([1, 0]);
            m.push(0);
        }
        7 => {
            m.extend([0]);
            put_uleb(&mut m, big);
        }
        _ => {
            // field id / index extremes
            m.extend([1, 0x6c, 1]);
            put_uleb(&mut m, big);
            put_sleb(&mut m, *e.pick(&[i64::MIN, i64::MAX, -25, -18, 1, 1 << 40]));
            m.extend([1, 0]);
        }
    }
    (m, "hostile-header")
}

fn overlong(e: &mut Ent, mut b: Vec<u8>) -> Vec<u8> {
    if b.len() > 5 {
        let i = 4 + e.below(b.len() - 4);
        if b[i] < 0x80 {
            let k = e.range(1, 40);
            b[i] |= 0x80;
            let fill = if e.bool() { 0x80u8 } else { 0xff };
            let mut tail: Vec<u8> = std::iter::repeat(fill).take(k - 1).collect();
            tail.push(if fill == 0xff { 0x7f } else { 0 });
            for (j, t) in tail.into_iter().enumerate() {
                b.insert(i + 1 + j, t);
            }
        }
    }
    b
}

struct Result6 {
    outcome: Result<Result<usize, String>, crate::engine::panics::PanicInfo>,
    peak: usize,
    biggest: usize,
}

/// Run the decode on a thread with the requested stack; allocation is measured on that thread.
fn run_decode(bytes: &[u8], target: &Target, cfg: &Cfg) -> Result6 {
    let bytes = bytes.to_vec();
    let target = target.clone();
    let cfg = cfg.clone();
    let h = std::thread::Builder::new().stack_size(cfg.stack).spawn(move || {
        let dc = decoder_config(&cfg);
        let plain = cfg.decoding.is_none() && cfg.skipping.is_none() && cfg.max_type_len.is_none() && cfg.full_error;
        // prepare the expected types outside the measured region
        let prepared: Option<(TypeEnv, Vec<Type>)> = match &target {
            Target::Untyped(env, tys) => Some((rtype::env_to_candid(env), tys.iter().map(rtype::to_candid).collect())),
            _ => None,
        };
        let reg = registry();
        if let Target::Native(i) = &target {
            let _ = guard(|| reg[*i].ty());
        }
        let (outcome, m) = alloc::measure(|| match &target {
            Target::Native(i) => reg[*i]
                .decode(&bytes, if plain { Api::Macros } else { Api::Builder }, if plain { None } else { Some(&dc) })
                .map(|r| r.map(|_| 1usize)),
            Target::Untyped(..) => {
                let (cenv, ctys) = prepared.as_ref().unwrap();
                guard(|| {
                    IDLArgs::from_bytes_with_types_with_config(&bytes, cenv, ctys, &dc)
                        .map(|a| a.args.len())
                        .map_err(|e| format!("{e} / {e:?}"))
                })
            }
            Target::NoType => guard(|| {
                IDLArgs::from_bytes_with_config(&bytes, &dc)
                    .map(|a| a.args.len())
                    .map_err(|e| format!("{e} / {e:?}"))
            }),
        });
        Result6 {
            outcome,
            peak: m.peak_over_start,
            biggest: m.biggest,
        }
    });
    match h {
        Ok(h) => match h.join() {
            Ok(r) => r,
            Err(_) => Result6 {
                outcome: Err(crate::engine::panics::PanicInfo {
                    location: "?".into(),
                    message: "decode thread panicked outside the guard".into(),
                }),
                peak: 0,
                biggest: 0,
            },
        },
        Err(_) => Result6 {
            outcome: Ok(Err("could not spawn thread".into())),
            peak: 0,
            biggest: 0,
        },
    }
}

const MEM_CONST: usize = 64 << 10;
const MEM_PER_INPUT_BYTE: usize = 2048;
const MEM_PER_QUOTA_UNIT: usize = 64;

impl Check for C06 {
    fn id(&self) -> &'static str {
        "C06"
    }
    fn rule(&self) -> &'static str {
        "A case is (bytes, expected type, decoder configuration). Bytes: random strings (half with the magic), valid generated messages and corpus-value messages with 1-3 byte mutations, hostile headers (counts and lengths up to 2^64-1, 10 000/10 001 real table entries, extreme ids and indices), deep nesting (opt / vec / record / list / variant recursion 1..20 000 levels, built by the harness, never by candid's encoder), zero-sized-element bombs (vec null / reserved / record {} / nested, lengths up to 2^63 when a quota is set and up to 1e5 otherwise), over-long LEB128 (up to 40 bytes) at random positions. Expected type: one of the ~230 corpus Rust types, generated untyped types, or none (from_bytes). Configuration: decoding quota and skipping quota in {none, 0, 1, 50, 1e3, 1e5}, full error message on/off, max_type_len, thread stack in {8 MiB, 1 MiB, 256 KiB}. Oracle: the call returns Ok or Err (error Display/Debug terminate); no panic; no process death (worker processes; a death is attributed to its input and confirmed by re-running it); in a debug-assertion build and a release-like build; when a decoding quota q is set, peak bytes allocated on the decoding thread <= 64 KiB + 2048 x |input| + 64 x q + 4 MiB x (1 + q/4) (the last term is serde's capped pre-allocation per nested sequence, 1 MiB of elements, up to 4 MiB as a hash table), and no single allocation request exceeds max(4 MiB + 64 KiB, 64 KiB + 128 x |input| + 128 x q). Non-trivial = the independent header parser accepts the header (value decoding began) or the case is from a hostile class; distinct = distinct (bytes, target, configuration)."
    }
    fn assumptions(&self) -> Vec<String> {
        vec![
            "work proportional to the quota is judged through allocation and termination only (no step-counter hook is installed); a hang would surface as the run-level watchdog (exit 2, inconclusive), not as a violation".into(),
            "without a decoding quota, time and memory proportional to declared zero-sized vector lengths are allowed (the bound is conditional on a quota)".into(),
        ]
    }
    fn max_len(&self) -> usize {
        1024
    }
    fn cases(&self, tier: Tier) -> u64 {
        match tier {
            Tier::Quick => 40_000,
            Tier::Thorough => 1_000_000,
        }
    }
    fn both_profiles(&self) -> bool {
        true
    }
    fn stack_bytes(&self) -> usize {
        64 << 20
    }
    fn one_case(&self, data: &[u8], ctx: &mut Ctx) -> Outcome {
        let mut e = Ent::new(data);
        let reg = registry();
        let quotas = [None, Some(0usize), Some(1), Some(50), Some(1_000), Some(100_000)];
        let mut cfg = Cfg {
            decoding: *e.pick(&quotas),
            skipping: *e.pick(&quotas),
            full_error: e.bool(),
            max_type_len: if e.ratio(1, 6) { Some(*e.pick(&[0usize, 1, 5, 100])) } else { None },
            stack: *e.pick(&[8usize << 20, 8 << 20, 1 << 20, 256 << 10]),
        };
        let class_sel = e.below(11);
        let mut target: Option<Target> = None;
        let (bytes, class): (Vec<u8>, &'static str) = match class_sel {
            0 => {
                let n = e.range(0, 64);
                let mut b = if e.bool() { b"DIDL".to_vec() } else { vec![] };
                b.extend(e.bytes_padded(n));
                (b, "random-bytes")
            }
            1 | 2 => {
                let tc = TypeCfg::default();
                match gen_case(&mut e, &tc, false) {
                    Some(c) => {
                        let mut b = c.bytes.clone();
                        for _ in 0..e.range(0, 3) {
                            mutate_bytes(&mut e, &mut b);
                        }
                        if e.bool() {
                            target = Some(Target::Untyped(c.env.clone(), c.exp_tys.clone()));
                        }
                        (b, "mutated-generated-message")
                    }
                    None => (b"DIDL\0\0".to_vec(), "mutated-generated-message"),
                }
            }
            3 | 4 => {
                let i = e.below(reg.len());
                match reg[i].gen_encode(&mut e, 3, Api::Macros) {
                    Ok(Ok(enc)) => {
                        let mut b = enc.bytes;
                        for _ in 0..e.range(0, 3) {
                            mutate_bytes(&mut e, &mut b);
                        }
                        if e.ratio(2, 3) {
                            target = Some(Target::Native(i));
                        }
                        (b, "mutated-corpus-message")
                    }
                    _ => (b"DIDL\0\0".to_vec(), "mutated-corpus-message"),
                }
            }
            5 => hostile_header(&mut e),
            6 | 7 => {
                let (b, c) = deep_message(&mut e);
                // expected types that follow the recursion
                if e.bool() {
                    let names = ["List", "Tree", "E1", "Option<Option<Option<Int>>>", "Option<List>", "Vec<Vec<Vec<u16>>>", "MutA", "Reserved", "FuncRec"];
                    let n = *e.pick(&names);
                    if let Some(i) = reg.iter().position(|o| o.name() == n) {
                        target = Some(Target::Native(i));
                    }
                } else if e.bool() {
                    let env = rtype::Env {
                        defs: vec![
                            ("T".into(), Ty::opt(Ty::var("T"))),
                            ("V".into(), Ty::vec(Ty::var("V"))),
                            ("R".into(), Ty::Record(vec![(rtype::Lab::Id(0), Ty::opt(Ty::var("R")))])),
                            ("L".into(), Ty::Record(vec![(rtype::Lab::Id(0), Ty::Prim(rtype::Prim::Int)), (rtype::Lab::Id(1), Ty::opt(Ty::var("L")))])),
                            ("W".into(), Ty::Variant(vec![(rtype::Lab::Id(0), Ty::Prim(rtype::Prim::Null)), (rtype::Lab::Id(1), Ty::var("W"))])),
                        ],
                    };
                    let t = Ty::var(*e.pick(&["T", "V", "R", "L", "W"]));
                    target = Some(Target::Untyped(env, vec![t]));
                }
                (b, c)
            }
            8 => {
                if cfg.decoding.is_none() && e.ratio(3, 4) {
                    cfg.decoding = Some(*e.pick(&[0usize, 50, 1000, 100_000]));
                }
                let (b, c) = bomb_message(&mut e, cfg.decoding.is_some());
                if e.bool() {
                    let names = ["Vec<()>", "Vec<Reserved>", "Vec<u8>", "Vec<Vec<u8>>", "Reserved", "Option<Vec<u8>>", "BTreeMap<String, ()>", "B8", "B8T", "B8E", "BAll", "BP", "B0"];
                    let n = *e.pick(&names);
                    if let Some(i) = reg.iter().position(|o| o.name() == n) {
                        target = Some(Target::Native(i));
                    }
                }
                (b, c)
            }
            9 => {
                let (b, native, c) = length_bomb(&mut Chooser::Ent(&mut e));
                match e.below(4) {
                    0 => target = Some(Target::NoType),
                    1 => {
                        // expected types that skip the item
                        target = Some(Target::Untyped(rtype::Env::default(), if e.bool() { vec![] } else { vec![Ty::opt(Ty::Prim(rtype::Prim::Bool))] }));
                    }
                    2 => {}
                    _ => {
                        if let Some(i) = native.and_then(|n| reg.iter().position(|o| o.name() == n)) {
                            target = Some(Target::Native(i));
                        }
                    }
                }
                (b, c)
            }
            _ => {
                let tc = TypeCfg::default();
                let b = gen_case(&mut e, &tc, false).map(|c| c.bytes).unwrap_or_else(|| b"DIDL\0\x01\x7d\x05".to_vec());
                (overlong(&mut e, b), "over-long-leb128")
            }
        };
        let target = target.unwrap_or_else(|| match e.below(4) {
            0 => Target::NoType,
            1 => {
                let tc = TypeCfg::default();
                let (env, sc) = gen_env(&mut e, &tc);
                let n = e.range(0, 2);
                let tys = (0..n).map(|_| gen_ty(&mut e, &sc, 2, &tc)).collect();
                Target::Untyped(env, tys)
            }
            _ => Target::Native(e.below(reg.len())),
        });
        judge_case(&bytes, class, &target, &cfg, ctx)
    }
    /// Enumerated family: every combination of length-bomb item, declared length,
    /// target and quota (run in both build profiles).
    fn enumerate(&self, _tier: Tier, shard: u64, nshards: u64, emit: &mut dyn FnMut(&[u8]) -> bool) {
        let mut k = 0u64;
        for ndata in [0usize, 5] {
            for kind in 0..12usize {
                for lencat in 0..8usize {
                    for pick in 0..7usize {
                        for target in 0..4usize {
                            for quota in 0..2usize {
                                k += 1;
                                if k % nshards != shard {
                                    continue;
                                }
                                let d = format!("LB:{ndata},{kind},{lencat},{pick},{target},{quota}");
                                if !emit(d.as_bytes()) {
                                    return;
                                }
                            }
                        }
                    }
                }
            }
        }
    }
    fn direct_case(&self, data: &[u8], ctx: &mut Ctx) -> Outcome {
        let text = String::from_utf8_lossy(data).to_string();
        let nums: Vec<usize> = match text.strip_prefix("LB:") {
            Some(r) => r.split(',').filter_map(|x| x.trim().parse().ok()).collect(),
            None => return Outcome::Skip("unknown-direct-case"),
        };
        if nums.len() != 6 {
            return Outcome::Skip("unknown-direct-case");
        }
        let (ndata, kind, lencat, pick, target, quota) = (nums[0], nums[1], nums[2], nums[3], nums[4], nums[5]);
        // order of choices in length_bomb: data length, kind, length category, then inner picks
        let mut ch = Chooser::Fixed(vec![ndata, kind, lencat, pick, pick, pick, pick], 0);
        let (bytes, native, class) = length_bomb(&mut ch);
        let reg = registry();
        let target = match target {
            0 => Target::NoType,
            1 => Target::Untyped(rtype::Env::default(), vec![]),
            2 => Target::Untyped(rtype::Env::default(), vec![Ty::opt(Ty::Prim(rtype::Prim::Bool))]),
            _ => match native.and_then(|n| reg.iter().position(|o| o.name() == n)) {
                Some(i) => Target::Native(i),
                None => Target::NoType,
            },
        };
        let cfg = Cfg { decoding: if quota == 0 { None } else { Some(1000) }, skipping: None, full_error: true, max_type_len: None, stack: 8 << 20 };
        ctx.class("enumerated-length-bomb");
        judge_case(&bytes, class, &target, &cfg, ctx)
    }
}

fn judge_case(bytes: &[u8], class: &'static str, target: &Target, cfg: &Cfg, ctx: &mut Ctx) -> Outcome {
    {
        let bytes: Vec<u8> = bytes.to_vec();
        let target = target.clone();
        let cfg = cfg.clone();
        let reg = registry();
        // without a quota a declared length may legitimately cost time: keep the domain finite
        ctx.class(class);
        ctx.class(match &target {
            Target::Native(_) => "target-native",
            Target::Untyped(..) => "target-untyped",
            Target::NoType => "target-none",
        });
        ctx.class(match cfg.stack {
            s if s >= 8 << 20 => "stack-8MiB",
            s if s >= 1 << 20 => "stack-1MiB",
            _ => "stack-256KiB",
        });
        if cfg.decoding.is_some() {
            ctx.class("decoding-quota-set");
        }
        let r = run_decode(&bytes, &target, &cfg);
        let describe = || {
            format!(
                "class {class}; target {}; config {:?}\nbytes ({}) {}",
                match &target {
                    Target::Native(i) => format!("native {}", reg[*i].name()),
                    Target::Untyped(env, tys) => format!("untyped ({}) env {}", tys.iter().map(rtype::emit_ty).collect::<Vec<_>>().join(", "), rtype::emit_env(env).replace('\n', " ")),
                    Target::NoType => "from_bytes".into(),
                },
                cfg,
                bytes.len(),
                if bytes.len() > 300 { format!("{}..", hex::encode(&bytes[..300])) } else { hex::encode(&bytes) }
            )
        };
        match &r.outcome {
            Err(p) => {
                return Outcome::Fail(Failure::new(
                    format!("decode:{}", p.sig()),
                    format!("decoding panicked at {}: {}\n{}", p.location, p.message, describe()),
                ))
            }
            Ok(Ok(_)) => ctx.class("accepted"),
            Ok(Err(_)) => ctx.class("rejected"),
        }
        if let Some(q) = cfg.decoding {
            // serde's collection visitors pre-allocate at most 1 MiB per sequence from the
            // (unverified) size hint - up to 4 MiB once a hash table rounds that up; entering a nested
            // sequence costs at least 4 quota units
            let prealloc = (4usize << 20).saturating_mul(1 + q / 4);
            let bound = MEM_CONST
                .saturating_add(MEM_PER_INPUT_BYTE * bytes.len())
                .saturating_add(MEM_PER_QUOTA_UNIT.saturating_mul(q))
                .saturating_add(prealloc);
            let single = ((4usize << 20) + (64 << 10)).max(MEM_CONST + 128 * bytes.len() + 128usize.saturating_mul(q));
            ctx.note_max("max_peak_alloc_permille_of_bound", (r.peak as u128 * 1000 / bound as u128) as i64);
            ctx.note_max("max_single_request_permille_of_bound", (r.biggest as u128 * 1000 / single as u128) as i64);
            if q <= 1000 {
                ctx.note_max("max_peak_alloc_bytes_per_input_byte_at_small_quota", (r.peak.saturating_sub(MEM_CONST + 128 * q + prealloc) / bytes.len().max(1)) as i64);
            }
            if r.peak > bound {
                return Outcome::Fail(Failure::new(
                    "allocation-exceeds-quota-bound",
                    format!("peak allocation {} bytes (largest single request {}) > 64 KiB + {} x {} + {} x {} + 4 MiB x (1 + q/4) = {}\n{}", r.peak, r.biggest, MEM_PER_INPUT_BYTE, bytes.len(), MEM_PER_QUOTA_UNIT, q, bound, describe()),
                ));
            }
            if r.biggest > single {
                return Outcome::Fail(Failure::new(
                    "single-allocation-exceeds-bound",
                    format!("a single allocation request of {} bytes > max(4 MiB + 64 KiB, 64 KiB + 128 x {} + 128 x {}) = {}\n{}", r.biggest, bytes.len(), q, single, describe()),
                ));
            }
        }
        let header_ok = parse_header(&bytes).is_ok();
        if header_ok {
            ctx.class("header-valid");
            if decode_message(&bytes).is_ok() {
                ctx.class("message-valid");
            }
        }
        if header_ok || matches!(class, "hostile-header" | "zero-size-bomb" | "length-bomb" | "deep-opt" | "deep-vec" | "deep-record-opt" | "deep-list" | "deep-variant") {
            let mut k = bytes.clone();
            k.extend(format!("{:?}{:?}", cfg, std::mem::discriminant(&target)).as_bytes());
            if let Target::Native(i) = &target {
                k.extend(reg[*i].name().as_bytes());
            }
            ctx.nontrivial(digest_of(&k));
        }
        ctx.sample(describe);
        Outcome::Pass
    }
}
