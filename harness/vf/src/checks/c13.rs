//! C13 The text parsers return a result for every input and never panic.

use crate::checks::c10::gen_triple;
use crate::engine::panics::guard;
use crate::engine::{digest_of, Check, Ctx, Failure, Outcome, Tier};
use crate::gen::types::{gen_env, gen_ty, TypeCfg};
use crate::gen::Ent;
use crate::refmodel::ridl::{to_idl, ById};
use crate::refmodel::rtype::{emit_prog, emit_ty, Ty};
use candid::types::TypeEnv;
use candid::IDLArgs;
use candid_parser::syntax::{IDLInitArgs, IDLProg, IDLType, IDLTypes};
use candid_parser::test::Test;
use candid_parser::{check_prog, parse_idl_args, parse_idl_value};

pub struct C13;

pub const LEXEMES: &[&str] = &[
    "=", "(", ")", "{", "}", ";", ",", ".", ":", "->", "==", "!=", "!:", "null", "vec", "record", "variant", "func", "service",
    "oneway", "query", "composite_query", "blob", "type", "import", "opt", "principal", "true", "false", "nat", "nat8", "nat16",
    "nat32", "nat64", "int", "int8", "int16", "int32", "int64", "float32", "float64", "bool", "text", "reserved", "empty", "assert",
    "a", "b", "A", "T", "x_1", "_", "__", "id", "table0", "+", "-", "0", "1", "42", "007", "1_000", "1__0", "0_", "_0", "255", "256",
    "65535", "65536", "4294967295", "4294967296", "18446744073709551615", "18446744073709551616",
    "340282366920938463463374607431768211456", "1234567890123456789012345678901234567890", "0x0", "0xff", "0xFF", "0XFF", "0X1f",
    "0x_1", "0x1_f", "0x_", "0X__", "0x___", "0x_g", "-0x_", "0x1__", "0x_f_", "0xffffffff", "0x100000000", "0Xffffffff", "0xg", "0x", "0X", "1.", ".5", ".", "1.5", "1e3", "1e+3", "1e-3", "1e",
    "1e+", "1E400", "1e400", "-1e400", "0.0", "-0.0", "1_0.5", "1.5e3_0", "1._5", "\"\"", "\"a\"", "\"a b\"", "\"\\n\"", "\"\\t\"",
    "\"\\\\\"", "\"\\\"\"", "\"\\'\"", "\"\\0\"", "\"\\q\"", "\"\\u{41}\"", "\"\\u{0}\"", "\"\\u{10ffff}\"", "\"\\u{110000}\"",
    "\"\\u{d800}\"", "\"\\u{4_1}\"", "\"\\u{_41}\"", "\"\\u{}\"", "\"\\u{ffffffffff}\"", "\"\\u41\"", "\"\\41\"", "\"\\ff\"", "\"\\fg\"",
    "\"\\e9\"", "\"\\c3\\a9\"", "\"\\f\"", "\"\\\"", "\"unterminated", "\"a\nb\"", "\"é\"", "\"日本\"", "\"\u{0}\"", "/*", "*/", "/* c */",
    "/* /* n */ */", "/* /* unclosed */", "// line\n", "//", "///doc\n", "é", "日本", "\u{0}", "\u{7f}", "\u{feff}", "#", "@", "'", "`",
    "$", "\\", "[", "]", "<", ">", "!", "?", "&", "|", "~", "^", "%", "*", "/", "\"aaaaa-aa\"", "\"2vxsx-fae\"", "\"2vxsx-faf\"",
    "\"DIDL\\00\\01\\7d\\2a\"", "\"DIDL\\00\\00\"", "\"(42)\"", "\"desc\"",
];

fn soup(e: &mut Ent) -> String {
    let n = e.range(0, 60);
    let mut s = String::new();
    for _ in 0..n {
        s.push_str(*e.pick(LEXEMES));
        match e.below(6) {
            0 => {}
            1 => s.push('\n'),
            2 => s.push('\t'),
            _ => s.push(' '),
        }
    }
    s
}

/// A fragment likely to reach grammar actions (record/variant shorthands, numerals, annotations).
fn template(e: &mut Ent) -> String {
    let num = |e: &mut Ent| -> String {
        (*e.pick(&[
            "0", "1", "42", "4294967294", "4294967295", "4294967296", "0xffffffff", "0XFFFFFFFF", "0xfffffffe", "0x100000000", "1_0",
            "007", "0X1F", "0x1F", "0x_", "0X__", "0x_1", "0x1_", "1__0", "_1", "1_", "18446744073709551616", "255", "256", "-1", "+1", "-0", "1e3", "1.5", ".5", "1.", "0x1p3",
        ]))
        .to_string()
    };
    let name = |e: &mut Ent| -> String { (*e.pick(&["a", "b", "\"a b\"", "\"\"", "record", "\"record\"", "true", "_", "x_1", "\"\\u{41}\"", "\"\\ff\""])).to_string() };
    let ty = |e: &mut Ent| -> String {
        (*e.pick(&[
            "nat", "int", "nat8", "text", "blob", "opt nat", "vec nat8", "record {}", "variant {}", "principal", "reserved", "empty", "float32",
            "func () -> ()", "service {}", "record { nat; text }", "variant { a; b : nat }", "null", "T", "opt opt opt null",
        ]))
        .to_string()
    };
    match e.below(14) {
        0 => format!("(record {{ {} = {} }})", num(e), num(e)),
        1 => format!("(record {{ {} = {}; {} }})", num(e), num(e), num(e)),
        2 => format!("(record {{ {}; {} = {}; {} }})", num(e), num(e), num(e), num(e)),
        3 => format!("(variant {{ {} }})", num(e)),
        4 => format!("(variant {{ {} = {} }})", name(e), num(e)),
        5 => format!("({} : {})", num(e), ty(e)),
        6 => format!("(vec {{ {}; {} : {} }})", num(e), num(e), ty(e)),
        7 => format!("record {{ {} : {}; {} }}", num(e), ty(e), ty(e)),
        8 => format!("variant {{ {} : {}; {}; {} }}", num(e), ty(e), name(e), num(e)),
        9 => format!("type T = record {{ {} : {}; {} : {} }}; service : {{ {} : ({}) -> ({}) query }}", num(e), ty(e), name(e), ty(e), name(e), ty(e), ty(e)),
        10 => format!("type T = {}; type U = {}; ({}, {} : {})", ty(e), ty(e), ty(e), name(e), ty(e)),
        11 => format!("(principal \"{}\", service \"{}\", func \"{}\".{})", e.pick(&["aaaaa-aa", "2vxsx-fae", "x", ""]), e.pick(&["aaaaa-aa", "zz"]), e.pick(&["aaaaa-aa", "2vxsx-fae"]), name(e)),
        12 => format!("assert blob \"DIDL\\00\\01\\7d\\{:02x}\" {} \"({})\" : ({}) \"d\";", e.u8(), e.pick(&["==", "!=", ":", "!:"]), num(e), ty(e)),
        _ => format!("(opt {} : opt {}, {} : {})", num(e), ty(e), num(e), ty(e)),
    }
}

fn mutate_text(e: &mut Ent, s: &str) -> String {
    let toks: Vec<&str> = s.split_whitespace().collect();
    if toks.is_empty() {
        return s.to_string();
    }
    let mut t: Vec<String> = toks.iter().map(|x| x.to_string()).collect();
    let i = e.below(t.len());
    match e.below(5) {
        0 => {
            t.remove(i);
        }
        1 => {
            let x = t[i].clone();
            t.insert(i, x);
        }
        2 => t[i] = (*e.pick(LEXEMES)).to_string(),
        3 => {
            let j = e.below(t.len());
            t.swap(i, j);
        }
        _ => {
            // character-level edit inside one token
            let mut cs: Vec<char> = t[i].chars().collect();
            if !cs.is_empty() {
                let k = e.below(cs.len());
                match e.below(3) {
                    0 => {
                        cs.remove(k);
                    }
                    1 => cs.insert(k, *e.pick(&['"', '\\', '_', '0', 'x', 'X', '.', 'e', '{', '}', '(', ')', ';', '-', '\n'])),
                    _ => cs[k] = *e.pick(&['"', '\\', '_', '0', 'x', 'X', '.', 'e', '{', '}', 'é']),
                }
            }
            t[i] = cs.into_iter().collect();
        }
    }
    t.join(" ")
}

fn nesting(s: &str) -> usize {
    // brackets and prefix constructors, as the property counts them
    let mut depth = 0usize;
    let mut max = 0usize;
    let mut run = 0usize;
    for tok in s.split(|c: char| c.is_whitespace() || c == ';' || c == ',' || c == ':' || c == '=') {
        for ch in tok.chars() {
            match ch {
                '(' | '{' => {
                    depth += 1;
                    max = max.max(depth + run);
                }
                ')' | '}' => depth = depth.saturating_sub(1),
                _ => {}
            }
        }
        if tok == "opt" || tok == "vec" {
            run += 1;
            max = max.max(depth + run);
        } else if !tok.is_empty() && tok != "(" {
            run = 0;
        }
    }
    max
}

fn check_error(entry: &str, input: &str, e: &candid_parser::Error) -> Result<(), Failure> {
    let r = guard(|| {
        let _ = e.to_string();
        e.report()
    });
    match r {
        Err(p) => Err(Failure::new(format!("{entry}:error-report:{}", p.sig()), format!("formatting the error panicked: {}\ninput: {input:?}", p.message))),
        Ok(d) => {
            for l in &d.labels {
                if l.range.start > l.range.end || l.range.end > input.len() + 1 {
                    return Err(Failure::new(
                        format!("{entry}:error-span-outside-input"),
                        format!("span {:?} for an input of {} bytes\ninput: {input:?}", l.range, input.len()),
                    ));
                }
            }
            Ok(())
        }
    }
}

macro_rules! parse_with {
    ($entry:expr, $input:expr, $parse:expr, $ok:expr) => {{
        match guard(|| $parse) {
            Err(p) => {
                return Err(Failure::new(
                    format!("{}:{}", $entry, p.sig()),
                    format!("{} panicked at {}: {}\ninput: {:?}", $entry, p.location, p.message, $input),
                ))
            }
            Ok(Err(e)) => {
                check_error($entry, $input, &e)?;
                false
            }
            Ok(Ok(v)) => {
                #[allow(clippy::redundant_closure_call)]
                ($ok)(v)?;
                true
            }
        }
    }};
}

pub fn run_all(input: &str, ctx: &mut Ctx) -> Result<u32, Failure> {
    let mut accepted = 0u32;
    let after = |what: &str, r: Result<(), crate::engine::panics::PanicInfo>| -> Result<(), Failure> {
        r.map_err(|p| Failure::new(format!("{what}:{}", p.sig()), format!("{what} panicked at {}: {}\ninput: {input:?}", p.location, p.message)))
    };
    if parse_with!("parse::<IDLProg>", input, input.parse::<IDLProg>(), |prog: IDLProg| {
        after("check_prog", guard(|| {
            let mut env = TypeEnv::new();
            if let Err(e) = check_prog(&mut env, &prog) {
                let _ = e.to_string();
            }
        }))
    }) {
        accepted += 1;
        ctx.class("prog-parses");
    }
    if parse_with!("parse::<IDLType>", input, input.parse::<IDLType>(), |t: IDLType| {
        after("ast_to_type", guard(|| {
            let _ = candid_parser::typing::ast_to_type(&TypeEnv::new(), &t).map_err(|e| e.to_string());
        }))
    }) {
        accepted += 1;
        ctx.class("type-parses");
    }
    if parse_with!("parse::<IDLTypes>", input, input.parse::<IDLTypes>(), |_t: IDLTypes| Ok::<(), Failure>(())) {
        accepted += 1;
    }
    if parse_with!("parse::<IDLInitArgs>", input, input.parse::<IDLInitArgs>(), |p: IDLInitArgs| {
        after("check_init_args", guard(|| {
            let mut env = TypeEnv::new();
            let _ = candid_parser::typing::check_init_args(&mut env, &TypeEnv::new(), &p).map_err(|e| e.to_string());
        }))
    }) {
        accepted += 1;
        ctx.class("init-args-parse");
    }
    if parse_with!("parse::<Test>", input, input.parse::<Test>(), |_t: Test| Ok::<(), Failure>(())) {
        accepted += 1;
        ctx.class("test-script-parses");
    }
    if parse_with!("parse_idl_args", input, parse_idl_args(input), |a: IDLArgs| {
        after("print-parsed-args", guard(|| {
            let _ = a.to_string();
            let _ = format!("{a:?}");
            let _ = a.to_bytes().map_err(|e| e.to_string());
        }))
    }) {
        accepted += 1;
        ctx.class("args-parse");
    }
    if parse_with!("parse_idl_value", input, parse_idl_value(input), |v: candid::IDLValue| {
        after("print-parsed-value", guard(|| {
            let _ = v.to_string();
        }))
    }) {
        accepted += 1;
        ctx.class("value-parses");
    }
    Ok(accepted)
}

impl Check for C13 {
    fn id(&self) -> &'static str {
        "C13"
    }
    fn rule(&self) -> &'static str {
        "A case is one input string, fed to all seven parser entry points (IDLProg, IDLType, IDLTypes, IDLInitArgs, Test script, parse_idl_args, parse_idl_value). Inputs: token soups of up to 60 lexemes from a 230-entry alphabet (every keyword and punctuation, boundary numerals such as 4294967295/4294967296, 0x/0X forms, underscores, 40-digit strings, float forms, strings with every escape form, out-of-range \\u{}, \\xx bytes producing invalid UTF-8, unterminated strings and nested/unterminated comments, non-ASCII); templates aimed at the grammar actions (record shorthand numbering, variant shorthands, annotated values, test assertions); generated programs, types, init-args and values (printed by the harness or by candid) with one token deleted, duplicated, replaced, swapped or edited at character level. Inputs with nesting depth above 128 are outside the domain. Oracle: each parser returns; on Ok the follow-up (check_prog, ast_to_type, check_init_args, printing and untyped encoding of parsed values) returns; on Err Display and report() return and every reported span lies within the input; no panic or crash in a debug-assertion build and in a release-like build. Non-trivial = at least one parser accepted the input or the input came from a template/mutated sentence; distinct = distinct input."
    }
    fn assumptions(&self) -> Vec<String> {
        vec!["nesting is counted as brackets plus runs of prefix constructors (opt/vec)".into()]
    }
    fn max_len(&self) -> usize {
        768
    }
    fn cases(&self, tier: Tier) -> u64 {
        match tier {
            Tier::Quick => 1_000_000,
            Tier::Thorough => 30_000_000,
        }
    }
    fn both_profiles(&self) -> bool {
        true
    }
    /// Direct cases: the input string itself (UTF-8).
    fn direct_case(&self, data: &[u8], ctx: &mut Ctx) -> Outcome {
        match std::str::from_utf8(data) {
            Ok(s) => match run_all(s, ctx) {
                Ok(_) => Outcome::Pass,
                Err(f) => Outcome::Fail(f),
            },
            Err(_) => Outcome::Skip("not-utf8"),
        }
    }
    fn one_case(&self, data: &[u8], ctx: &mut Ctx) -> Outcome {
        let mut e = Ent::new(data);
        let (input, class): (String, &'static str) = match e.below(8) {
            0 | 1 => (soup(&mut e), "token-soup"),
            2 | 3 => {
                let mut s = template(&mut e);
                if e.bool() {
                    s = mutate_text(&mut e, &s);
                }
                (s, "template")
            }
            4 => {
                let mut cfg = TypeCfg::default();
                cfg.odd_labels = e.bool();
                let (env, sc) = gen_env(&mut e, &cfg);
                let actor = if e.bool() { Some(crate::gen::types::gen_service(&mut e, &sc, 2, &cfg)) } else { None };
                let actor = match (actor, e.bool()) {
                    (Some(a), true) => Some(Ty::Class((0..e.range(0, 2)).map(|_| gen_ty(&mut e, &sc, 1, &cfg)).collect(), Box::new(a))),
                    (a, _) => a,
                };
                let mut s = emit_prog(&env, actor.as_ref());
                for _ in 0..e.range(0, 2) {
                    s = mutate_text(&mut e, &s);
                }
                (s, "mutated-program")
            }
            5 => {
                let mut cfg = TypeCfg::default();
                cfg.odd_labels = e.bool();
                let (env, sc) = gen_env(&mut e, &cfg);
                let tys: Vec<String> = (0..e.range(0, 3)).map(|_| emit_ty(&gen_ty(&mut e, &sc, 3, &cfg))).collect();
                let mut s = if e.bool() {
                    format!("{}({})", crate::refmodel::rtype::emit_env(&env), tys.join(", "))
                } else {
                    tys.first().cloned().unwrap_or_else(|| "nat".into())
                };
                for _ in 0..e.range(0, 2) {
                    s = mutate_text(&mut e, &s);
                }
                (s, "mutated-types")
            }
            _ => {
                let mut cfg = TypeCfg::default();
                cfg.odd_labels = e.bool();
                match gen_triple(&mut e, &cfg) {
                    Some(tr) => {
                        let v = to_idl(&tr.graph, tr.root, &tr.val, &ById);
                        let printed = guard(|| {
                            let a = IDLArgs { args: vec![v.clone()] };
                            if data.len() % 2 == 0 {
                                a.to_string()
                            } else {
                                format!("{a:?}")
                            }
                        });
                        match printed {
                            Ok(mut s) => {
                                for _ in 0..e.range(0, 2) {
                                    s = mutate_text(&mut e, &s);
                                }
                                (s, "mutated-value")
                            }
                            Err(_) => (soup(&mut e), "token-soup"),
                        }
                    }
                    None => (soup(&mut e), "token-soup"),
                }
            }
        };
        if nesting(&input) > 128 {
            return Outcome::Skip("nesting-above-128");
        }
        ctx.class(class);
        if std::env::var_os("VF_DEBUG").is_some() {
            eprintln!("INPUT [{class}] {input:?}");
        }
        match run_all(&input, ctx) {
            Ok(accepted) => {
                if accepted > 0 {
                    ctx.class("some-parser-accepts");
                }
                if accepted > 0 || class != "token-soup" {
                    ctx.nontrivial(digest_of(input.as_bytes()));
                }
                ctx.sample(|| format!("[{class}] {input:?} -> {accepted} of 7 parsers accept"));
                Outcome::Pass
            }
            Err(f) => Outcome::Fail(f),
        }
    }
}
