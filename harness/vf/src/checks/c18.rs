//! C18 The generated Rust binding defines types with the same Candid meaning.
//! Batch check: emit bindings for N generated programs, compile them as one
//! crate against /repo's candid with the real rustc, and compare the Candid
//! type the derive macro computes for every emitted type with the source.

use crate::checks::c12::parse_and_check;
use crate::engine::driver::{write_replay, Violation};
use crate::engine::panics::guard;
use crate::engine::{digest_of, verif_root, Tier};
use crate::gen::prog::{emit_plain, gen_prog, Prog};
use crate::gen::types::TypeCfg;
use crate::gen::Ent;
use crate::refmodel::rtype::Ty;
use candid_parser::bindings::rust::{emit_bindgen, Config, Output};
use candid_parser::configs::Configs;
use candid_parser::syntax::IDLMergedProg;
use candid_parser::IDLProg;
use proptest::strategy::{Strategy, ValueTree};
use proptest::test_runner::{Config as PConfig, RngAlgorithm, TestRng, TestRunner};
use serde_json::json;
use std::collections::BTreeMap;
use std::path::PathBuf;
use std::process::Command;
use std::str::FromStr;
use std::time::Instant;

pub const RS_DEF_NAMES: &[&str] = &[
    "a_b", "a", "aB", "a_b_c", "Foo", "foo", "FooBar", "foo_bar", "fooBar", "c", "b_c", "b", "self_", "Self_", "crate_", "super_", "fn_",
    "Nat", "Int", "Func", "Service", "T", "A1", "a1", "List", "node", "my_type", "A", "AB", "ABC", "abc",
    "Type", "Value", "Error",
];

/// Names the emitted code itself relies on (imports of the templates and prelude
/// types it spells unqualified). A definition with such a name shadows them:
/// known finding C18-definition-shadows-used-name, generated only rarely.
pub const SHADOWING_NAMES: &[&str] = &[
    "Vec", "Option", "Box", "String", "Result", "Principal", "Deserialize", "CandidType", "candid", "serde_bytes", "u8", "u16", "u32", "u64",
    "i8", "i16", "i32", "i64", "f32", "f64", "bool", "str", "Into", "From", "Default", "Clone", "Copy", "Send", "Sync", "Sized", "Iterator", "Ok", "Err", "Some", "None",
];

const PRELUDE: &str = "#![allow(warnings)]\nuse candid::{self, CandidType, Deserialize, Principal};\n";

struct Item {
    text: String,
    #[allow(dead_code)]
    entropy: Vec<u8>,
    module: Option<String>,
    emit_failure: Option<String>,
    forces_generated_name: bool,
    type_defs: String,
}

fn gen_program(entropy: &[u8]) -> Prog {
    let mut e = Ent::new(entropy);
    let mut cfg = TypeCfg::default();
    cfg.odd_labels = e.ratio(1, 2);
    cfg.ident_methods = e.ratio(1, 2);
    cfg.max_defs = 5;
    cfg.max_depth = 3;
    if e.ratio(1, 60) {
        cfg.def_names = SHADOWING_NAMES;
    } else if e.ratio(2, 3) {
        cfg.def_names = RS_DEF_NAMES;
    }
    let (mut p, sc) = gen_prog(&mut e, &cfg);
    // shapes the generator treats specially: result-like variants (std Result for Ok/Err,
    // candid::MotokoResult for ok/err) in several spellings, as definitions and inline
    if e.ratio(1, 3) {
        use crate::refmodel::rtype::{Lab, Prim};
        let spell: &[(&str, &str)] = &[("ok", "err"), ("Ok", "Err"), ("OK", "ERR"), ("ok", "Err"), ("Ok", "err"), ("ok", "error")];
        let (a, b) = *e.pick(spell);
        let pay = |e: &mut Ent| -> Ty {
            match e.below(4) {
                0 => Ty::Prim(Prim::Null),
                1 => Ty::Prim(Prim::Text),
                2 => Ty::Record(vec![(Lab::Named("code".into()), Ty::Prim(Prim::Nat16))]),
                _ => Ty::Prim(Prim::Nat),
            }
        };
        let mut fs = vec![(Lab::Named(a.into()), pay(&mut e)), (Lab::Named(b.into()), pay(&mut e))];
        // sometimes a third case: then it is an ordinary variant, not a result
        if e.ratio(1, 3) {
            fs.push((Lab::Named((*e.pick(&["Timeout", "pending", "A", "zzz"])).into()), pay(&mut e)));
        }
        fs.sort_by_key(|f| f.0.id());
        let v = Ty::Variant(fs);
        let name = if p.env.get("transfer_result").is_none() { "transfer_result" } else { "transfer_result_2" };
        if p.env.get(name).is_none() {
            if e.bool() {
                p.env.defs.push((name.to_string(), v));
            } else {
                // inline, below a record field and an option
                p.env.defs.push((name.to_string(), Ty::Record(vec![(Lab::Named("status".into()), v.clone()), (Lab::Named("last".into()), Ty::opt(v))])));
            }
        }
    }
    // a generated name for an anonymous type that is also the name of a source definition,
    // before or after it in name order
    if e.ratio(1, 4) {
        use crate::refmodel::rtype::{Lab, Prim};
        let (outer, field, clash): (&str, &str, &str) = *e.pick(&[("a", "b", "AB"), ("a_b", "c", "ABC"), ("a", "b_c", "ABC"), ("foo", "bar", "FooBar"), ("node", "item", "NodeItem"), ("x", "y", "XY"), ("A", "b", "AB"), ("Foo", "bar", "FooBar"), ("List", "item", "ListItem"), ("A", "b_c", "ABC"), ("T", "x", "TX")]);
        if p.env.get(outer).is_none() && p.env.get(clash).is_none() {
            let inner = if e.bool() { Ty::Record(vec![(Lab::Named("x".into()), Ty::Prim(Prim::Nat))]) } else { Ty::Variant(vec![(Lab::Named("p".into()), Ty::Prim(Prim::Null)), (Lab::Named("q".into()), Ty::Prim(Prim::Text))]) };
            p.env.defs.push((outer.to_string(), Ty::Record(vec![(Lab::Named(field.into()), inner)])));
            p.env.defs.push((clash.to_string(), Ty::Record(vec![(Lab::Named("y".into()), Ty::Prim(Prim::Text))])));
        }
    }
    // the main service also takes and returns every definition, so that each
    // definition's emitted Rust type is named in a method signature
    let mut ms: Vec<(String, Ty)> = vec![];
    let mut init: Option<Vec<Ty>> = None;
    match p.actor.take() {
        Some(Ty::Service(m)) => ms = m,
        Some(Ty::Class(a, s)) => {
            init = Some(a);
            if let Ty::Service(m) = *s {
                ms = m;
            }
        }
        Some(Ty::Var(n)) => {
            if let Some(Ty::Service(m)) = p.env.get(&n) {
                ms = m.clone();
            }
        }
        _ => {}
    }
    if ms.is_empty() && e.bool() {
        if let Ty::Service(m) = crate::gen::types::gen_service(&mut e, &sc, 2, &cfg) {
            ms = m;
        }
    }
    for (i, (n, _)) in p.env.defs.iter().enumerate() {
        let name = format!("vf_def_{i}");
        if !ms.iter().any(|m| m.0 == name) {
            ms.push((name, Ty::Func { args: vec![Ty::Var(n.clone())], rets: vec![Ty::Var(n.clone())], modes: vec![] }));
        }
    }
    p.actor = Some(match init {
        Some(a) => Ty::Class(a, Box::new(Ty::Service(ms))),
        None => Ty::Service(ms),
    });
    // Two known findings (numeric ids outside tuples, one-field tuples) would be hit
    // by a third of the programs and hide everything else in them: five programs in
    // six are generated without those shapes (excluded by construction).
    if !e.ratio(1, 6) {
        for d in p.env.defs.iter_mut() {
            avoid_known_shapes(&mut d.1);
        }
        if let Some(a) = p.actor.as_mut() {
            avoid_known_shapes(a);
        }
    }
    p
}

fn avoid_known_shapes(t: &mut Ty) {
    use crate::refmodel::rtype::Lab;
    fn rename(fs: &mut Vec<(Lab, Ty)>) {
        let mut used: Vec<u32> = fs.iter().filter(|f| matches!(f.0, Lab::Named(_))).map(|f| f.0.id()).collect();
        let mut out: Vec<(Lab, Ty)> = vec![];
        for (l, x) in fs.drain(..) {
            match l {
                Lab::Id(n) => {
                    let l2 = Lab::Named(format!("n{n}"));
                    if used.contains(&l2.id()) {
                        continue;
                    }
                    used.push(l2.id());
                    out.push((l2, x));
                }
                l => out.push((l, x)),
            }
        }
        out.sort_by_key(|f| f.0.id());
        *fs = out;
    }
    match t {
        Ty::Prim(_) | Ty::Var(_) => {}
        Ty::Opt(x) | Ty::Vec(x) => avoid_known_shapes(x),
        Ty::Record(fs) => {
            let tuple = fs.len() >= 2 && fs.iter().enumerate().all(|(i, f)| f.0 == Lab::Id(i as u32));
            if !tuple {
                rename(fs);
            }
            // a single field whose *name* hashes to 0 (the empty name) is a one-field tuple too
            if fs.len() == 1 && fs[0].0.id() == 0 {
                fs[0].0 = Lab::Named("only".into());
            }
            for f in fs.iter_mut() {
                avoid_known_shapes(&mut f.1);
            }
        }
        Ty::Variant(fs) => {
            rename(fs);
            for f in fs.iter_mut() {
                avoid_known_shapes(&mut f.1);
            }
        }
        Ty::Func { args, rets, .. } => {
            for x in args.iter_mut().chain(rets.iter_mut()) {
                avoid_known_shapes(x);
            }
        }
        Ty::Service(ms) => {
            for m in ms.iter_mut() {
                avoid_known_shapes(&mut m.1);
            }
        }
        Ty::Class(a, s) => {
            for x in a.iter_mut() {
                avoid_known_shapes(x);
            }
            avoid_known_shapes(s);
        }
    }
}

fn emit(text: &str) -> Result<Output, String> {
    let (env, actor, _) = parse_and_check(text).map_err(|e| format!("HARNESS: generated program rejected: {e}"))?;
    let r = guard(|| {
        let ast: IDLProg = text.parse().expect("parsed before");
        let prog = IDLMergedProg::new(ast);
        let cfg = Config::new(Configs::from_str("").unwrap());
        emit_bindgen(&cfg, &env, &actor, &prog).0
    });
    r.map_err(|p| format!("emit_bindgen panicked at {}: {}", p.location, p.message))
}

fn module_source(name: &str, text: &str, o: &Output) -> String {
    let mut s = String::from(PRELUDE);
    s.push_str(&o.type_defs);
    s.push_str(&format!("\npub const DID: &str = {text:?};\n"));
    s.push_str("pub fn check() -> Vec<String> {\n  let src = crate::support::load(DID);\n  let mut out: Vec<String> = vec![];\n");
    for m in &o.methods {
        s.push_str("  {\n    let mut c = crate::support::Closer::new();\n");
        s.push_str(&format!(
            "    let args: Vec<candid::types::Type> = vec![{}];\n",
            m.args.iter().map(|(_, t)| format!("c.add::<{t}>()")).collect::<Vec<_>>().join(", ")
        ));
        s.push_str(&format!(
            "    let rets: Vec<candid::types::Type> = vec![{}];\n",
            m.rets.iter().map(|t| format!("c.add::<{t}>()")).collect::<Vec<_>>().join(", ")
        ));
        s.push_str(&format!("    out.extend(crate::support::compare_method(&src, {:?}, &c.env, &args, &rets));\n  }}\n", m.original_name));
    }
    {
        s.push_str("  {\n    let mut c = crate::support::Closer::new();\n");
        let init = o.init_args.clone().unwrap_or_default();
        s.push_str(&format!(
            "    let args: Vec<candid::types::Type> = vec![{}];\n",
            init.iter().map(|(_, t)| format!("c.add::<{t}>()")).collect::<Vec<_>>().join(", ")
        ));
        s.push_str("    out.extend(crate::support::compare_init(&src, &c.env, &args));\n  }\n");
    }
    s.push_str(&format!("  let _ = {name:?};\n  out\n}}\n"));
    s
}

fn gen_dir() -> PathBuf {
    verif_root().join("harness/rsbind/src/gen")
}

fn write_batch(items: &[Item]) {
    let dir = gen_dir();
    let _ = std::fs::remove_dir_all(&dir);
    std::fs::create_dir_all(&dir).unwrap();
    let mut modrs = String::new();
    let mut all = String::from("pub const ALL: &[(&str, fn() -> Vec<String>)] = &[\n");
    for (i, it) in items.iter().enumerate() {
        if let Some(m) = &it.module {
            std::fs::write(dir.join(format!("p{i}.rs")), m).unwrap();
            modrs.push_str(&format!("pub mod p{i};\n"));
            all.push_str(&format!("    (\"p{i}\", p{i}::check),\n"));
        }
    }
    all.push_str("];\n");
    std::fs::write(dir.join("mod.rs"), format!("{modrs}{all}")).unwrap();
}

fn reset_gen() {
    let dir = gen_dir();
    let _ = std::fs::remove_dir_all(&dir);
    let _ = std::fs::create_dir_all(&dir);
    let _ = std::fs::write(dir.join("mod.rs"), "pub const ALL: &[(&str, fn() -> Vec<String>)] = &[];\n");
}

/// Builds the batch crate; returns per-module compiler errors (module index -> first lines).
fn build() -> Result<BTreeMap<usize, String>, String> {
    let out = Command::new("cargo")
        .args(["build", "--offline", "--profile", "verif", "-p", "rsbind", "--message-format", "short"])
        .current_dir(verif_root().join("harness"))
        .env("CARGO_NET_OFFLINE", "true")
        .env_remove("RUSTUP_TOOLCHAIN")
        .output()
        .map_err(|e| format!("cannot run cargo: {e}"))?;
    let stderr = String::from_utf8_lossy(&out.stderr).to_string();
    let mut errs: BTreeMap<usize, String> = BTreeMap::new();
    for l in stderr.lines() {
        if l.contains("error") {
            if let Some(pos) = l.find("src/gen/p") {
                let rest = &l[pos + "src/gen/p".len()..];
                let num: String = rest.chars().take_while(|c| c.is_ascii_digit()).collect();
                if let Ok(i) = num.parse::<usize>() {
                    let e = errs.entry(i).or_default();
                    if e.len() < 1500 {
                        e.push_str(l);
                        e.push('\n');
                    }
                }
            }
        }
    }
    if !out.status.success() && errs.is_empty() {
        return Err(format!("building the batch crate failed outside the generated modules:\n{}", stderr.lines().filter(|l| l.contains("error")).take(20).collect::<Vec<_>>().join("\n")));
    }
    Ok(errs)
}

fn run_binary() -> Result<BTreeMap<usize, Vec<String>>, String> {
    let bin = verif_root().join("harness/target/verif/rsbind");
    let out = Command::new(&bin).env("RUST_BACKTRACE", "0").output().map_err(|e| format!("cannot run {}: {e}", bin.display()))?;
    if !out.status.success() {
        return Err(format!("batch binary exited with {:?}: {}", out.status, String::from_utf8_lossy(&out.stderr)));
    }
    let mut res = BTreeMap::new();
    for l in String::from_utf8_lossy(&out.stdout).lines() {
        if let Ok(v) = serde_json::from_str::<serde_json::Value>(l) {
            if let Some(n) = v["program"].as_str().and_then(|s| s[1..].parse::<usize>().ok()) {
                res.insert(n, v["failures"].as_array().map(|a| a.iter().filter_map(|x| x.as_str().map(String::from)).collect()).unwrap_or_default());
            }
        }
    }
    Ok(res)
}

pub struct BatchOutcome {
    pub failures: Vec<(usize, String, String)>, // (index, sig, message)
}

fn judge(items: &mut [Item]) -> Result<BatchOutcome, String> {
    let mut failures = vec![];
    for (i, it) in items.iter().enumerate() {
        if let Some(f) = &it.emit_failure {
            failures.push((i, "emit_bindgen:panic-or-reject".to_string(), f.clone()));
        }
    }
    write_batch(items);
    // rustc reports errors phase by phase: keep removing the modules that do not
    // compile until the rest of the batch builds, so the others are still judged
    for round in 0..8 {
        let errs = build()?;
        if errs.is_empty() {
            break;
        }
        if round == 7 {
            return Err("batch crate still does not build after removing 7 rounds of failing modules".into());
        }
        for (i, e) in &errs {
            failures.push((*i, "emitted-rust-does-not-compile".to_string(), e.clone()));
            items[*i].module = None;
        }
        write_batch(items);
    }
    let results = run_binary()?;
    for (i, fs) in results {
        if !fs.is_empty() {
            failures.push((i, "emitted-type-differs-from-source".to_string(), fs.join("\n")));
        }
    }
    failures.sort_by_key(|f| f.0);
    Ok(BatchOutcome { failures })
}

fn make_item(entropy: Vec<u8>, text: Option<String>) -> Item {
    let text = text.unwrap_or_else(|| emit_plain(&gen_program(&entropy)));
    match emit(&text) {
        Ok(o) => {
            let ndefs = text.lines().filter(|l| l.starts_with("type ")).count();
            let nitems = o.type_defs.matches("pub struct ").count() + o.type_defs.matches("pub enum ").count() + o.type_defs.matches("define_function!").count() + o.type_defs.matches("define_service!").count() + o.type_defs.matches("pub type ").count();
            Item {
                module: Some(module_source("p", &text, &o)),
                forces_generated_name: nitems > ndefs || o.type_defs.contains("serde(rename"),
                type_defs: o.type_defs.clone(),
                text,
                entropy,
                emit_failure: None,
            }
        }
        Err(e) => Item {
            text,
            entropy,
            module: None,
            emit_failure: Some(e),
            forces_generated_name: false,
            type_defs: String::new(),
        },
    }
}

pub fn run(tier: Tier, seed: u64) -> i32 {
    let t0 = Instant::now();
    crate::engine::panics::install_hook();
    let (batches, per_batch) = match tier {
        Tier::Quick => (2usize, 200usize),
        Tier::Thorough => (16, 300),
    };
    let mut seed_bytes = [0u8; 32];
    seed_bytes[..8].copy_from_slice(&seed.to_le_bytes());
    seed_bytes[8..16].copy_from_slice(&0xc18c18c18u64.to_le_bytes());
    let mut runner = TestRunner::new_with_rng(PConfig::default(), TestRng::from_seed(RngAlgorithm::ChaCha, &seed_bytes));
    let strat = proptest::collection::vec(proptest::prelude::any::<u8>(), 0..768);
    let mut evaluations = 0u64;
    let mut digests = std::collections::HashSet::new();
    let mut nontrivial = 0u64;
    let mut samples = vec![];
    let mut violation: Option<(String, String, String)> = None; // sig, msg, text
    let mut infra: Vec<String> = vec![];
    let mut excluded: BTreeMap<String, u64> = BTreeMap::new();
    // regression programs first
    let reg_dir = verif_root().join("corpora/C18/regress");
    let mut reg_items: Vec<Item> = vec![];
    if let Ok(rd) = std::fs::read_dir(&reg_dir) {
        let mut files: Vec<_> = rd.filter_map(|e| e.ok().map(|e| e.path())).filter(|p| p.extension().map(|x| x == "did").unwrap_or(false)).collect();
        files.sort();
        for f in files {
            if let Ok(t) = std::fs::read_to_string(&f) {
                reg_items.push(make_item(vec![], Some(t)));
            }
        }
    }
    'outer: for b in 0..batches {
        let mut items: Vec<Item> = if b == 0 { std::mem::take(&mut reg_items) } else { vec![] };
        while items.len() < per_batch {
            let entropy = strat.new_tree(&mut runner).map(|t| t.current()).unwrap_or_default();
            items.push(make_item(entropy, None));
        }
        match judge(&mut items) {
            Err(e) => {
                infra.push(e);
                break 'outer;
            }
            Ok(out) => {
                evaluations += items.len() as u64;
                for it in &items {
                    if it.forces_generated_name {
                        nontrivial += 1;
                        digests.insert(digest_of(it.text.as_bytes()));
                    }
                }
                for it in items.iter().take(3) {
                    if samples.len() < 6 {
                        samples.push(json!({"class": "program", "case": it.text.chars().take(600).collect::<String>()}));
                    }
                }
                let known = crate::engine::known::Known::load();
                for (i, sig, msg) in &out.failures {
                    let text = items[*i].text.clone();
                    let sig = classify_with_msg(&text, &items[*i].type_defs, sig, msg);
                    if let Some(k) = known.matches("C18", &sig) {
                        *excluded.entry(k.id.clone()).or_insert(0u64) += 1;
                        continue;
                    }
                    violation = Some((sig, shrink_note(msg), text));
                    break 'outer;
                }
            }
        }
    }
    reset_gen();
    let wall = t0.elapsed().as_secs_f64();
    let mut exit = 0;
    if let Some((sig, msg, text)) = &violation {
        let v = Violation { sig: sig.clone(), msg: msg.clone(), kind: 1, data: text.as_bytes().to_vec(), detail: vec![text.clone()], profile: "verif".into() };
        let p = write_replay("C18", &v);
        println!("FAILURE sig={sig}\n  {}\n--- program ---\n{text}", msg.replace('\n', "\n  "));
        println!("VIOLATION property=C18 replay={}", p.display());
        exit = 1;
    }
    if !infra.is_empty() && exit == 0 {
        exit = 2;
    }
    let ev = json!({
        "property_id": "C18", "tier": tier.name(), "seed": seed, "level": "exploration",
        "coverage": {
            "evaluations": evaluations.max(1),
            "nontrivial_cases": nontrivial,
            "distinct_nontrivial": digests.len(),
            "rule": "A case is a generated well-typed program stressing nominalisation: anonymous records/variants/functions/services at several paths, definition names that collide after Pascal/snake-case conversion (a_b + c vs a + b_c, aB vs a_b, Foo vs foo), Rust keywords and prelude/type names as definitions and labels, numeric and non-ASCII labels, Ok/Err and ok/err shapes, recursion needing Box, blobs, tuples; the main service additionally takes and returns every definition. For each program emit_bindgen's type definitions and method/init type strings are written to one module of a batch crate together with a generated check() that computes <Emitted as CandidType>::ty() through TypeContainer for every method argument, result and init argument and compares it (bisimilarity) with the source type; the crate is compiled once with the real rustc against /repo's candid (a module with a compiler error is a violation, the batch is rebuilt without it) and the binary runs every check(). Non-trivial = the program forces at least one generated (path-derived) item or a renamed identifier; distinct = distinct program text.",
            "samples": samples,
            "engines": [format!("{} batch(es) of {} programs, compiled with cargo/rustc (profile verif)", if evaluations > 0 { (evaluations as usize + per_batch - 1) / per_batch } else { 0 }, per_batch)],
            "exhaustive": false,
            "excluded_known": excluded,
            "infrastructure_notes": infra,
        },
        "assumptions": ["only emit_bindgen's artefacts are compiled; the full call/agent templates need ic_cdk/ic-agent, which are not available offline (their totality is C19's subject)", "A green run means no counter-example among the generated programs; it does not establish absence."],
        "wall_s": (wall * 100.0).round() / 100.0,
        "violations": if exit == 1 { 1 } else { 0 },
    });
    let _ = std::fs::create_dir_all(verif_root().join("evidence"));
    let _ = std::fs::write(verif_root().join("evidence/C18.json"), serde_json::to_vec_pretty(&ev).unwrap());
    for f in crate::engine::known::Known::load().open_for("C18") {
        println!("KNOWN-FINDING: property=C18 {} [{}; hit {} times this run]", f.what, f.id, excluded.get(&f.id).copied().unwrap_or(0));
    }
    println!("C18: tier={} seed={} evaluations={} nontrivial={} distinct_nontrivial={} wall={:.1}s", tier.name(), seed, evaluations, nontrivial, digests.len(), wall);
    for i in &infra {
        println!("INFRA: {i}");
    }
    exit
}

/// Narrow a generic signature to a known-finding class where the program exhibits it.
/// Does the emitted code contain a struct field or enum variant spelled `_N_` that
/// stands for a numeric Candid id (no serde rename in front of it)? The derive
/// macro hashes that spelling as a name, so the id is lost.
fn has_unrenamed_numeric_member(type_defs: &str) -> bool {
    let lines: Vec<&str> = type_defs.lines().map(|l| l.trim()).collect();
    for (i, l) in lines.iter().enumerate() {
        // inline struct bodies: `pub struct X { pub _0_: T, pub a: U }`
        let full: &str = l;
        let mut from = 0usize;
        while let Some(rel) = full[from..].find('_') {
            let pos = from + rel;
            let after = &full[pos + 1..];
            let digits: String = after.chars().take_while(|c| c.is_ascii_digit()).collect();
            let boundary_before = pos == 0 || !full[..pos].chars().last().map(|c| c.is_ascii_alphanumeric() || c == '_').unwrap_or(false);
            if !digits.is_empty() && after[digits.len()..].starts_with('_') && boundary_before {
                let tail = &after[digits.len() + 1..];
                let member = tail.starts_with(':') || tail.starts_with('(') || tail.starts_with(',') || tail.starts_with(" {") || tail.starts_with('{') || tail.starts_with(" }") || tail.is_empty();
                // attributes between the previous member separator and this member
                let seg_start = full[..pos].rfind(|c| c == ',' || c == '{').map(|x| x + 1).unwrap_or(0);
                let renamed_inline = full[seg_start..pos].contains("serde(rename");
                let renamed_before = seg_start == 0 && i > 0 && lines[i - 1].starts_with("#[serde(rename");
                if member && !renamed_inline && !renamed_before {
                    return true;
                }
            }
            from = pos + 1;
        }
    }
    false
}

fn classify_with_msg(text: &str, type_defs: &str, sig: &str, msg: &str) -> String {
    let c = classify(text, type_defs, sig);
    if c == "emitted-rust-does-not-compile"
        && (msg.contains("is defined multiple times") || msg.contains("E0428") || msg.contains("E0124") || msg.contains("is already declared"))
    {
        return format!("{c}:names-collide-after-case-conversion");
    }
    c
}

/// `pub struct X (pub T,);` - a tuple struct with exactly one field, which the derive
/// macro treats as a newtype (Candid type of T) rather than as record { 0 : T }.
fn has_one_field_tuple_struct(type_defs: &str) -> bool {
    let flat: String = type_defs.split_whitespace().collect::<Vec<_>>().join(" ");
    let mut from = 0;
    while let Some(rel) = flat[from..].find("pub struct ") {
        let start = from + rel + "pub struct ".len();
        let rest = &flat[start..];
        let name_end = rest.find(|c: char| !(c.is_alphanumeric() || c == '_' || c == '#')).unwrap_or(rest.len());
        let after = rest[name_end..].trim_start();
        if after.starts_with('(') {
            // count fields at nesting depth 1 up to the matching parenthesis
            let mut depth = 0i32;
            let mut fields = 0;
            let mut nonempty = false;
            for ch in after.chars() {
                match ch {
                    '(' | '<' | '[' => {
                        depth += 1;
                        if depth > 1 {
                            nonempty = true;
                        }
                    }
                    ')' | '>' | ']' => {
                        depth -= 1;
                        if depth == 0 {
                            if nonempty {
                                fields += 1;
                            }
                            break;
                        }
                    }
                    ',' if depth == 1 => {
                        if nonempty {
                            fields += 1;
                        }
                        nonempty = false;
                    }
                    c if !c.is_whitespace() => nonempty = true,
                    _ => {}
                }
            }
            if fields == 1 {
                return true;
            }
        }
        from = start;
    }
    false
}

/// `Name(T,)` anywhere (tuple struct or tuple enum variant with exactly one field).
fn has_one_field_tuple_group(type_defs: &str) -> bool {
    let cs: Vec<char> = type_defs.chars().filter(|c| !c.is_whitespace()).collect();
    let mut stack: Vec<(usize, usize)> = vec![]; // (position of '(', top-level commas so far)
    let mut angle: Vec<i32> = vec![];
    for (i, c) in cs.iter().enumerate() {
        match c {
            '(' => {
                stack.push((i, 0));
                angle.push(0);
            }
            '<' => {
                if let Some(a) = angle.last_mut() {
                    *a += 1;
                }
            }
            '>' => {
                if let Some(a) = angle.last_mut() {
                    if *a > 0 {
                        *a -= 1;
                    }
                }
            }
            ',' => {
                if angle.last().copied().unwrap_or(0) == 0 {
                    if let Some(top) = stack.last_mut() {
                        top.1 += 1;
                    }
                }
            }
            ')' => {
                if let Some((start, commas)) = stack.pop() {
                    angle.pop();
                    // exactly one top-level comma, and it is the last character before ')'
                    let preceded_by_ident = start > 0 && (cs[start - 1].is_alphanumeric() || cs[start - 1] == '_');
                    if commas == 1 && i > 0 && cs[i - 1] == ',' && preceded_by_ident {
                        return true;
                    }
                }
            }
            _ => {}
        }
    }
    false
}

fn classify(text: &str, type_defs: &str, sig: &str) -> String {
    if sig == "emitted-type-differs-from-source" && (has_one_field_tuple_struct(type_defs) || has_one_field_tuple_group(type_defs)) {
        return format!("{sig}:one-field-tuple-record-emitted-as-newtype");
    }
    if sig == "emitted-type-differs-from-source" && has_unrenamed_numeric_member(type_defs) {
        return format!("{sig}:numeric-field-id-emitted-as-a-name");
    }
    let defs: Vec<&str> = text
        .lines()
        .filter_map(|l| l.strip_prefix("type "))
        .filter_map(|l| l.split_whitespace().next())
        .collect();
    if sig == "emitted-rust-does-not-compile" && defs.iter().any(|d| SHADOWING_NAMES.contains(d)) {
        return format!("{sig}:definition-shadows-name-used-by-emitted-code");
    }
    sig.to_string()
}

fn shrink_note(msg: &str) -> String {
    msg.chars().take(3000).collect()
}

/// Strict replay of one program (the replay file's data is the program text).
pub fn replay(path: &std::path::Path) -> i32 {
    crate::engine::panics::install_hook();
    let (_, _, data, _) = match crate::engine::driver::read_replay(path) {
        Ok(x) => x,
        Err(e) => {
            eprintln!("vf: {e}");
            return 2;
        }
    };
    let text = String::from_utf8_lossy(&data).to_string();
    let mut items = vec![make_item(vec![], Some(text.clone()))];
    if std::env::var_os("VF_DEBUG").is_some() {
        eprintln!("--- emitted type definitions ---\n{}", items[0].type_defs);
    }
    let r = judge(&mut items);
    reset_gen();
    match r {
        Err(e) => {
            println!("INFRA: {e}");
            2
        }
        Ok(out) => match out.failures.first() {
            None => {
                println!("REPLAY-PASS");
                0
            }
            Some((_, sig, msg)) => {
                let sig = classify_with_msg(&text, &items[0].type_defs, sig, msg);
                println!("REPLAY-FAIL sig={sig}\n{msg}\n--- program ---\n{text}");
                println!("VIOLATION property=C18 replay={}", path.display());
                1
            }
        },
    }
}
