//! C08 Native decoding agrees with untyped decoding at the same Candid type.

use crate::checks::c02::gen_layout;
use crate::corpus::registry::{registry, Api, TypeOps};
use crate::engine::panics::guard;
use crate::engine::{digest_of, Check, Ctx, Failure, Outcome, Tier};
use crate::gen::types::{Scope, TypeCfg};
use crate::gen::upgrade::{step, Dir};
use crate::gen::values::ValGen;
use crate::gen::Ent;
use crate::refmodel::ridl::from_idl;
use crate::refmodel::rtype::{self, emit_ty, Builder, Env, Prim, Ty};
use crate::refmodel::rval::{show, RVal};
use crate::refmodel::rwire::encode_message;
use candid::{Decode, Encode, IDLArgs};
use num_bigint::{BigInt, BigUint};

pub struct C08;

/// T's Candid type in syntactic form, through TypeContainer (no knots).
pub fn corpus_ty(ops: &dyn TypeOps) -> Result<(Env, Ty, candid::TypeEnv, candid::types::Type), String> {
    let (t, env) = guard(|| ops.container_add()).map_err(|p| format!("TypeContainer::add panicked: {}", p.message))?;
    let renv = rtype::env_from_candid(&env).map_err(|e| format!("{e:?}"))?;
    let ty = rtype::from_candid(&t).map_err(|e| format!("{e:?}"))?;
    // candid-side types rebuilt from the syntactic form, so they contain Var instead of Knot
    Ok((renv.clone(), ty.clone(), rtype::env_to_candid(&renv), rtype::to_candid(&ty)))
}

/// Layout twins: swap, at one position, a type for one with a similar byte layout.
pub fn twin(e: &mut Ent, env: &Env, t: &Ty, depth: usize) -> Ty {
    let blobish = |e: &mut Ent| -> Ty {
        match e.below(5) {
            0 => Ty::Prim(Prim::Text),
            1 => Ty::vec(Ty::Prim(Prim::Nat8)),
            2 => Ty::vec(Ty::Prim(Prim::Int8)),
            3 => Ty::vec(Ty::Prim(Prim::Bool)),
            _ => Ty::Prim(Prim::Principal),
        }
    };
    let numish = |e: &mut Ent| -> Ty {
        Ty::Prim(*e.pick(&[
            Prim::Nat, Prim::Int, Prim::Nat8, Prim::Nat16, Prim::Nat32, Prim::Nat64, Prim::Int8, Prim::Int16, Prim::Int32, Prim::Int64,
            Prim::Float32, Prim::Float64, Prim::Bool,
        ]))
    };
    if depth < 6 && e.ratio(1, 2) {
        match t {
            Ty::Opt(x) => return Ty::opt(twin(e, env, x, depth + 1)),
            Ty::Vec(x) if **x != Ty::Prim(Prim::Nat8) || e.bool() => return Ty::vec(twin(e, env, x, depth + 1)),
            Ty::Record(fs) | Ty::Variant(fs) if !fs.is_empty() => {
                let i = e.below(fs.len());
                let mut f2 = fs.clone();
                f2[i].1 = twin(e, env, &fs[i].1, depth + 1);
                return if matches!(t, Ty::Record(_)) { Ty::Record(f2) } else { Ty::Variant(f2) };
            }
            Ty::Var(n) => {
                if let Some(b) = env.get(n) {
                    return twin(e, env, &b.clone(), depth + 1);
                }
            }
            _ => {}
        }
    }
    match t {
        Ty::Prim(Prim::Text) | Ty::Prim(Prim::Principal) => blobish(e),
        Ty::Vec(x) if matches!(**x, Ty::Prim(Prim::Nat8) | Ty::Prim(Prim::Int8) | Ty::Prim(Prim::Bool)) => blobish(e),
        Ty::Prim(p) if !matches!(p, Prim::Null | Prim::Reserved | Prim::Empty) => numish(e),
        Ty::Vec(x) => Ty::vec(twin(e, env, x, depth + 1)),
        Ty::Opt(x) => Ty::opt(twin(e, env, x, depth + 1)),
        other => other.clone(),
    }
}

fn resolve<'a>(env: &'a Env, t: &'a Ty) -> &'a Ty {
    let mut cur = t;
    for _ in 0..16 {
        match cur {
            Ty::Var(n) => match env.get(n) {
                Some(b) => cur = b,
                None => return cur,
            },
            _ => return cur,
        }
    }
    cur
}
fn tuple_like(fs: &[(rtype::Lab, Ty)]) -> bool {
    let mut ids: Vec<u32> = fs.iter().map(|f| f.0.id()).collect();
    ids.sort();
    ids.iter().enumerate().all(|(i, id)| *id == i as u32)
}
/// Regions of known findings (excluded by construction, counted): the expected
/// type asks for a tuple / key-value vector / blob and the wire type, although
/// coercible, does not have exactly that shape.
pub fn known_region(env: &Env, exp: &Ty, wire: &Ty, map_type: bool, depth: usize) -> Option<&'static str> {
    if depth > 10 {
        return None;
    }
    let (e, w) = (resolve(env, exp), resolve(env, wire));
    match (e, w) {
        (Ty::Record(fe), Ty::Record(fw)) => {
            if !fe.is_empty() && tuple_like(fe) && !tuple_like(fw) {
                return Some("excluded-known:C08-tuple-needs-tuple-wire");
            }
            for (l, te) in fe {
                if let Some((_, tw)) = fw.iter().find(|(k, _)| k.id() == l.id()) {
                    if let Some(r) = known_region(env, te, tw, map_type, depth + 1) {
                        return Some(r);
                    }
                }
            }
            None
        }
        (Ty::Variant(fe), Ty::Variant(fw)) => {
            for (l, te) in fe {
                if let Some((_, tw)) = fw.iter().find(|(k, _)| k.id() == l.id()) {
                    if let Some(r) = known_region(env, te, tw, map_type, depth + 1) {
                        return Some(r);
                    }
                }
            }
            None
        }
        (Ty::Vec(te), Ty::Vec(tw)) => {
            let (te2, tw2) = (resolve(env, te), resolve(env, tw));
            if *te2 == Ty::Prim(Prim::Nat8) && *tw2 != Ty::Prim(Prim::Nat8) {
                return Some("excluded-known:C08-empty-vec-at-blob");
            }
            if map_type {
                if let Ty::Record(fe) = te2 {
                    if fe.len() == 2 && tuple_like(fe) {
                        let exact = matches!(tw2, Ty::Record(fw) if fw.len() == 2 && tuple_like(fw));
                        if !exact {
                            return Some("excluded-known:C08-map-needs-exact-pair");
                        }
                    }
                }
            }
            known_region(env, te, tw, map_type, depth + 1)
        }
        (Ty::Opt(te), Ty::Opt(tw)) => known_region(env, te, tw, map_type, depth + 1),
        (Ty::Opt(te), _) => known_region(env, te, w, map_type, depth + 1),
        _ => None,
    }
}

/// Does some vector hold two key/value pairs with the same key and different values?
fn conflicting_keys(v: &RVal) -> bool {
    match v {
        RVal::Opt(Some(x)) => conflicting_keys(x),
        RVal::Vec(vs) => {
            let pair = |r: &RVal| -> Option<(RVal, RVal)> {
                match r {
                    RVal::Record(fs) if fs.len() == 2 && fs[0].0 == 0 && fs[1].0 == 1 => Some((fs[0].1.clone(), fs[1].1.clone())),
                    _ => None,
                }
            };
            for (i, x) in vs.iter().enumerate() {
                if let Some((k, val)) = pair(x) {
                    if vs[i + 1..].iter().filter_map(pair).any(|(k2, v2)| k2 == k && v2 != val) {
                        return true;
                    }
                }
            }
            vs.iter().any(conflicting_keys)
        }
        RVal::Record(fs) => fs.iter().any(|(_, x)| conflicting_keys(x)),
        RVal::Variant(_, x) => conflicting_keys(x),
        _ => false,
    }
}

/// Remove duplicate elements (duplicate keys for key/value pairs) from every vector.
fn dedup(v: &RVal) -> RVal {
    match v {
        RVal::Opt(Some(x)) => RVal::some(dedup(x)),
        RVal::Vec(vs) => {
            let mut out: Vec<RVal> = vec![];
            for x in vs {
                let x = dedup(x);
                let key = |r: &RVal| -> RVal {
                    match r {
                        RVal::Record(fs) if fs.len() == 2 && fs[0].0 == 0 && fs[1].0 == 1 => fs[0].1.clone(),
                        other => other.clone(),
                    }
                };
                if !out.iter().any(|y| key(y) == key(&x)) {
                    out.push(x);
                }
            }
            RVal::Vec(out)
        }
        RVal::Record(fs) => RVal::Record(fs.iter().map(|(i, x)| (*i, dedup(x))).collect()),
        RVal::Variant(i, x) => RVal::Variant(*i, Box::new(dedup(x))),
        other => other.clone(),
    }
}

fn sort_vecs(v: &RVal) -> RVal {
    match v {
        RVal::Opt(Some(x)) => RVal::some(sort_vecs(x)),
        RVal::Vec(vs) => {
            let mut out: Vec<RVal> = vs.iter().map(sort_vecs).collect();
            out.sort_by(|a, b| format!("{a:?}").cmp(&format!("{b:?}")));
            RVal::Vec(out)
        }
        RVal::Record(fs) => RVal::Record(fs.iter().map(|(i, x)| (*i, sort_vecs(x))).collect()),
        RVal::Variant(i, x) => RVal::Variant(*i, Box::new(sort_vecs(x))),
        other => other.clone(),
    }
}

fn exceeds_128(v: &RVal) -> bool {
    match v {
        RVal::Nat(n) => *n > BigUint::from(u128::MAX),
        RVal::Int(n) => *n > BigInt::from(i128::MAX) || *n < BigInt::from(i128::MIN),
        RVal::Opt(Some(x)) => exceeds_128(x),
        RVal::Vec(vs) => vs.iter().any(exceeds_128),
        RVal::Record(fs) => fs.iter().any(|(_, x)| exceeds_128(x)),
        RVal::Variant(_, x) => exceeds_128(x),
        _ => false,
    }
}

fn tag_num(tags: &[&str], key: &str) -> Option<usize> {
    tags.iter().find_map(|t| t.strip_prefix(key).and_then(|s| s.parse().ok()))
}

/// BoundedVec acceptance predicted from the untyped value.
fn within_bounds(tags: &[&str], v: &RVal) -> bool {
    let elems = match v {
        RVal::Vec(vs) => vs,
        _ => return true,
    };
    let l = tag_num(tags, "L=").unwrap_or(usize::MAX);
    let ts = tag_num(tags, "TS=").unwrap_or(usize::MAX);
    let es = tag_num(tags, "ES=").unwrap_or(usize::MAX);
    if elems.len() > l {
        return false;
    }
    let mut total = 0usize;
    for x in elems {
        let sz = match x {
            RVal::Nat8(_) => 1,
            RVal::Nat64(_) => 8,
            RVal::Text(s) => s.len(),
            RVal::Vec(b) => 24 + b.len(),
            RVal::Principal(p) => p.len(),
            _ => 0,
        };
        if sz > es {
            return false;
        }
        total += sz;
        if total > ts {
            return false;
        }
    }
    true
}

/// A fixed-size array reads a prefix of the wire vector; if the vector is longer the
/// decoder must say so, not take the unread elements for what follows. The message is
/// shaped so that a decoder that leaves one element unread lands exactly on a
/// well-formed (but different) second argument.
fn array_prefix_case(e: &mut Ent, ctx: &mut Ctx) -> Outcome {
    let l = e.range(0, 40);
    let second: Vec<u8> = (0..l).map(|_| e.u8()).collect();
    let four = e.bool();
    let mut first: Vec<u8> = if four { (0..4).map(|_| e.u8()).collect() } else { vec![] };
    // one element too many; its value is the length a mis-positioned reader would need
    first.push((l + 1) as u8);
    let bytes = match guard(|| Encode!(&first, &second)) {
        Ok(Ok(b)) => b,
        _ => return Outcome::Skip("encode-failed"),
    };
    ctx.class("array-shorter-than-wire-vector-then-another-argument");
    let native: Result<Result<(Vec<u8>, Vec<u8>), String>, _> = guard(|| {
        if four {
            Decode!(&bytes, [u8; 4], Vec<u8>).map(|(a, b)| (a.to_vec(), b)).map_err(|e| format!("{e:?}"))
        } else {
            Decode!(&bytes, [u8; 0], Vec<u8>).map(|(a, b)| (a.to_vec(), b)).map_err(|e| format!("{e:?}"))
        }
    });
    match native {
        Err(p) => Outcome::Fail(Failure::new(format!("native-array:{}", p.sig()), p.message)),
        Ok(Err(_)) => {
            ctx.nontrivial(digest_of(&bytes));
            Outcome::Pass
        }
        Ok(Ok((a, b))) => Outcome::Fail(Failure::new(
            "array-leaves-longer-vector-unread-and-misreads-next-argument",
            format!("(vec {first:?}, vec {second:?}) read at ([u8; {}], Vec<u8>) returned ({a:?}, {b:?}); bytes {}", if four { 4 } else { 0 }, hex::encode(&bytes)),
        )),
    }
}

/// Borrowed types (&str, &[u8]) are decode-only and live outside the corpus.
fn borrowed_case(e: &mut Ent, ctx: &mut Ctx) -> Outcome {
    let is_bytes = e.bool();
    let ty = if is_bytes { Ty::vec(Ty::Prim(Prim::Nat8)) } else { Ty::Prim(Prim::Text) };
    let env = Env::default();
    let wire_ty = if e.ratio(1, 3) { ty.clone() } else { twin(e, &env, &ty, 0) };
    let mut b = Builder::new(&env);
    let root = match b.ty(&wire_ty) {
        Ok(r) => r,
        Err(_) => return Outcome::Skip("wire-type-ill-formed"),
    };
    let g = b.graph;
    let val = match ValGen::new(&g).gen(e, root, 3) {
        Some(v) => v,
        None => return Outcome::Skip("uninhabited-wire-type"),
    };
    if !ctx.strict {
        if let Some(r) = known_region(&env, &ty, &wire_ty, false, 0) {
            // the empty-vector deviation only concerns empty vectors; keep non-empty ones
            if matches!(&val, RVal::Vec(v) if v.is_empty()) {
                return Outcome::Skip(r);
            }
        }
    }
    let mut bytes = encode_message(&g, &[root], &[val.clone()], &gen_layout(e));
    // sometimes a hand-made message instead: a vector (or text) header with an element
    // type code of the same or another layout, a length, and that many payload bytes -
    // well-formed for some codes, malformed for others (no value of `empty` exists);
    // either way both decoders must agree
    if e.ratio(1, 4) {
        let code = *e.pick(&[0x7bu8, 0x77, 0x7e, 0x6f, 0x70, 0x7f, 0x7a, 0x71, 0x68]);
        let len = e.range(0, 6);
        let payload = e.range(0, 8);
        bytes = b"DIDL".to_vec();
        if e.ratio(1, 6) {
            bytes.extend([0, 1, code]);
        } else {
            bytes.extend([1, 0x6d, code, 1, 0]);
        }
        bytes.push(len as u8);
        bytes.extend((0..payload).map(|i| if e.bool() { i as u8 + 1 } else { e.u8() }));
        ctx.class("borrowed-hand-made-vector-message");
    }
    ctx.class(if is_bytes { "borrowed-&[u8]" } else { "borrowed-&str" });
    let native: Result<Result<RVal, String>, _> = guard(|| {
        if is_bytes {
            Decode!(&bytes, &[u8])
                .map(|b| RVal::Vec(b.iter().map(|x| RVal::Nat8(*x)).collect()))
                .map_err(|e| format!("{e:?}"))
        } else {
            Decode!(&bytes, &str).map(|s| RVal::Text(s.to_string())).map_err(|e| format!("{e:?}"))
        }
    });
    let native = match native {
        Ok(r) => r,
        Err(p) => return Outcome::Fail(Failure::new(format!("native-borrowed:{}", p.sig()), p.message)),
    };
    let untyped = match guard(|| IDLArgs::from_bytes_with_types(&bytes, &candid::TypeEnv::new(), &[rtype::to_candid(&ty)])) {
        Ok(r) => r.map_err(|e| format!("{e:?}")),
        Err(p) => return Outcome::Fail(Failure::new(format!("untyped:{}", p.sig()), p.message)),
    };
    let name = if is_bytes { "&[u8]" } else { "&str" };
    let describe = || {
        format!(
            "T = {name}, wire {} : {}\nbytes {}\nnative: {:?}\nuntyped: {}",
            show(&val),
            emit_ty(&wire_ty),
            hex::encode(&bytes),
            native.as_ref().map(show).map_err(|e| e.lines().next().unwrap_or("").to_string()),
            match &untyped {
                Ok(a) => format!("{a}"),
                Err(e) => format!("ERR {}", e.lines().next().unwrap_or("")),
            }
        )
    };
    match (&native, &untyped) {
        (Err(_), Err(_)) => ctx.class("both-reject"),
        (Ok(n), Ok(u)) => {
            ctx.class("both-accept");
            if u.args.first().and_then(from_idl).as_ref() != Some(n) {
                return Outcome::Fail(Failure::new(format!("values-differ:{name}"), describe()));
            }
        }
        (Ok(_), Err(_)) => return Outcome::Fail(Failure::new(format!("native-accepts-untyped-rejects:{name}"), describe())),
        (Err(_), Ok(_)) => return Outcome::Fail(Failure::new(format!("native-rejects-untyped-accepts:{name}"), describe())),
    }
    let mut k = bytes.clone();
    k.extend_from_slice(name.as_bytes());
    ctx.nontrivial(digest_of(&k));
    ctx.sample(describe);
    Outcome::Pass
}

impl Check for C08 {
    fn id(&self) -> &'static str {
        "C08"
    }
    fn rule(&self) -> &'static str {
        "A case is (corpus Rust type T, message). The message's wire type is T's Candid type (value generated for T and encoded by candid or by the harness's encoder with layout variations), or that type after 1-3 upgrade steps (sub/super/unrelated), or a layout twin (at one position text <-> blob <-> vec int8 <-> vec bool <-> principal, or one number type for another), with a value generated for the wire type (duplicate keys/elements removed for map and set types; fixed-size arrays only with T's own type). Oracle: Decode!(m, T) succeeds iff IDLArgs::from_bytes_with_types(m, env_T, [ty_T]) succeeds, where T's type is exported through TypeContainer; exceptions decided from the untyped value: 128-bit host range, BoundedVec limits (length, element and total data size as documented). When both succeed the abstract value of the native result equals that of the untyped result (multiset comparison for map/set types). Non-trivial = wire type differs from T's type or the value is non-default; distinct = distinct (T, message)."
    }
    fn assumptions(&self) -> Vec<String> {
        vec![
            "data sizes of BoundedVec elements are taken from the documentation of DataSize (u8 1, u64 8, String/Principal byte length, Vec<u8> 24 + length)".into(),
            "host-limit cases (nat/int outside 128 bits at a type containing u128/i128) are skipped and counted".into(),
        ]
    }
    fn max_len(&self) -> usize {
        1024
    }
    fn cases(&self, tier: Tier) -> u64 {
        match tier {
            Tier::Quick => 1_200_000,
            Tier::Thorough => 50_000_000,
        }
    }
    fn one_case(&self, data: &[u8], ctx: &mut Ctx) -> Outcome {
        let reg = registry();
        let mut e = Ent::new(data);
        if e.ratio(1, 16) {
            return borrowed_case(&mut e, ctx);
        }
        if e.ratio(1, 40) {
            return array_prefix_case(&mut e, ctx);
        }
        let i = e.below(reg.len());
        let ops = reg[i].as_ref();
        let tags = ops.tags();
        let (env, ty, _cenv, _cty) = match corpus_ty(ops) {
            Ok(x) => x,
            Err(why) => return Outcome::Fail(Failure::new(format!("type-export-fails:{}", ops.name()), why)),
        };
        let is_array = tags.contains(&"array");
        let unordered = tags.iter().any(|t| matches!(*t, "map" | "set" | "hash"));
        let mode = if is_array { 0 } else { e.below(6) };
        let cfg = TypeCfg::default();
        let sc = Scope::empty();
        let mut region: Option<&'static str> = None;
        let (bytes, wire_desc, relation, nondefault): (Vec<u8>, String, &'static str, bool) = match mode {
            0 | 1 => {
                // T's own value through candid's encoder
                match ops.gen_encode(&mut e, 3, Api::Macros) {
                    Ok(Ok(enc)) => (enc.bytes, show(&enc.wire), "own-type-candid-encoder", !enc.is_default),
                    _ => return Outcome::Skip("encode-failed"),
                }
            }
            _ => {
                let (wire_ty, relation) = match mode {
                    2 => (ty.clone(), "own-type-harness-encoder"),
                    3 => {
                        let mut t = ty.clone();
                        for _ in 0..e.range(1, 3) {
                            let d = *e.pick(&[Dir::Sub, Dir::Sub, Dir::Super, Dir::Unrelated]);
                            t = step(&mut e, &env, &sc, &t, d, &cfg, 0);
                        }
                        (t, "upgrade-neighbour")
                    }
                    _ => (twin(&mut e, &env, &ty, 0), "layout-twin"),
                };
                // Regions of the open findings are not skipped: there the judge tolerates
                // exactly the recorded direction (by signature, counted) and still reports
                // the opposite one (native accepting what the generic path rejects).
                region = known_region(&env, &ty, &wire_ty, tags.contains(&"map"), 0);
                if let Some(r) = region {
                    ctx.class(r.trim_start_matches("excluded-known:"));
                }
                let mut b = Builder::new(&env);
                let root = match b.ty(&wire_ty) {
                    Ok(r) => r,
                    Err(_) => return Outcome::Skip("wire-type-ill-formed"),
                };
                let g = b.graph;
                let vg = ValGen::new(&g);
                let mut val = match vg.gen(&mut e, root, 4) {
                    Some(v) => v,
                    None => return Outcome::Skip("uninhabited-wire-type"),
                };
                if unordered {
                    val = dedup(&val);
                }
                let layout = gen_layout(&mut e);
                let bytes = encode_message(&g, &[root], &[val.clone()], &layout);
                (bytes, format!("{} : {}", show(&val), emit_ty(&wire_ty)), relation, true)
            }
        };
        judge_in(ops, &bytes, &wire_desc, relation, nondefault, region, ctx)
    }
    /// Direct cases: JSON {"type": corpus type name, "bytes": hex}
    fn direct_case(&self, data: &[u8], ctx: &mut Ctx) -> Outcome {
        #[derive(serde::Deserialize)]
        struct D {
            r#type: String,
            bytes: String,
        }
        let d: D = match serde_json::from_slice(data) {
            Ok(d) => d,
            Err(_) => return Outcome::Skip("bad-direct-case"),
        };
        let bytes = hex::decode(&d.bytes).unwrap_or_default();
        match registry().iter().find(|o| o.name() == d.r#type) {
            Some(ops) => judge(ops.as_ref(), &bytes, "(direct)", "direct", true, ctx),
            None => Outcome::Skip("unknown-type"),
        }
    }
}

fn judge(ops: &dyn TypeOps, bytes: &[u8], wire_desc: &str, relation: &'static str, nondefault: bool, ctx: &mut Ctx) -> Outcome {
    judge_in(ops, bytes, wire_desc, relation, nondefault, None, ctx)
}

/// `region`: the wire type lies in the region of an open finding (native tuple/map
/// decoding needs exactly that wire shape). There the native side is known to
/// reject - or, below an option, to answer null - where the generic path accepts;
/// that direction is reported under the finding's signature. The opposite direction
/// (native accepting what the generic path rejects) is judged as everywhere else.
fn judge_in(ops: &dyn TypeOps, bytes: &[u8], wire_desc: &str, relation: &'static str, nondefault: bool, region: Option<&'static str>, ctx: &mut Ctx) -> Outcome {
    let tags = ops.tags();
    let unordered = tags.iter().any(|t| matches!(*t, "map" | "set" | "hash"));
    let (_env, ty, cenv, cty) = match corpus_ty(ops) {
        Ok(x) => x,
        Err(why) => return Outcome::Fail(Failure::new(format!("type-export-fails:{}", ops.name()), why)),
    };
    let bytes: Vec<u8> = bytes.to_vec();
        for t in tags {
            if !t.contains('=') {
                ctx.class(t);
            }
        }
        ctx.class(relation);
        let native = match ops.decode(&bytes, Api::Macros, None) {
            Ok(r) => r,
            Err(p) => {
                return Outcome::Fail(Failure::new(
                    format!("native:{}", p.sig()),
                    format!("Decode!(.., {}) panicked at {}: {}\nbytes {}", ops.name(), p.location, p.message, hex::encode(&bytes)),
                ))
            }
        };
        let untyped = match guard(|| IDLArgs::from_bytes_with_types(&bytes, &cenv, &[cty.clone()])) {
            Ok(r) => r.map_err(|e| format!("{e:?}")),
            Err(p) => {
                return Outcome::Fail(Failure::new(
                    format!("untyped:{}", p.sig()),
                    format!("from_bytes_with_types panicked at {}: {}\nbytes {}", p.location, p.message, hex::encode(&bytes)),
                ))
            }
        };
        let describe = || {
            format!(
                "T = {} (candid {}), wire {} [{}]\nbytes {}\nnative: {}\nuntyped: {}",
                ops.name(),
                emit_ty(&ty),
                wire_desc,
                relation,
                hex::encode(&bytes),
                match &native {
                    Ok(d) => show(&d.wire),
                    Err(e) => format!("ERR {}", e.lines().last().unwrap_or("")),
                },
                match &untyped {
                    Ok(a) => format!("{a}"),
                    Err(e) => format!("ERR {}", e.lines().last().unwrap_or("")),
                }
            )
        };
        let uval: Option<RVal> = untyped.as_ref().ok().and_then(|a| a.args.first()).and_then(from_idl);
        match (&native, &untyped) {
            (Err(_), Err(_)) => ctx.class("both-reject"),
            (Ok(n), Ok(_)) => {
                ctx.class("both-accept");
                let u = match &uval {
                    Some(u) => u,
                    None => return Outcome::Fail(Failure::new("untyped:unannotated-result", describe())),
                };
                if tags.contains(&"bounded") && !within_bounds(tags, u) {
                    return Outcome::Fail(Failure::new(format!("bounded-vec:accepted-beyond-limits:{}", ops.name()), describe()));
                }
                // A set or map keeps one element per key. Elements that differ on the wire
                // only in parts the expected type drops coincide after coercion, so for
                // unordered containers both sides are compared as sets at every vector
                // level; two entries with one key and different values (which of them a map
                // keeps is an implementation choice) are not compared.
                if unordered && conflicting_keys(u) {
                    return Outcome::Skip("duplicate-keys-with-different-values-after-coercion");
                }
                // (sorted first: two maps that differ only in element order are one element of an outer set)
                let same = if unordered { dedup(&sort_vecs(&n.wire)) == dedup(&sort_vecs(u)) } else { n.wire == *u };
                if !same && region == Some("excluded-known:C08-tuple-needs-tuple-wire") {
                    return Outcome::Fail(Failure::new("tuple-native-rejects-wire-record-that-is-not-a-tuple", describe()));
                }
                if !same && region == Some("excluded-known:C08-empty-vec-at-blob") {
                    // below an option the blob path's rejection of an empty vector of another
                    // element type shows as null on the untyped side
                    return Outcome::Fail(Failure::new("untyped-blob-path-rejects-empty-vector-that-native-accepts", describe()));
                }
                if !same && region == Some("excluded-known:C08-map-needs-exact-pair") {
                    return Outcome::Fail(Failure::new("map-native-rejects-wire-record-that-is-not-exactly-a-pair", describe()));
                }
                if !same {
                    return Outcome::Fail(Failure::new(format!("values-differ:{}", ops.name()), describe()));
                }
            }
            (Err(_), Ok(_)) => {
                let u = uval.clone().unwrap_or(RVal::Null);
                if tags.contains(&"host128") && exceeds_128(&u) {
                    return Outcome::Skip("host-limit-128-bit");
                }
                if tags.contains(&"bounded") && !within_bounds(tags, &u) {
                    ctx.class("bounded-limit-enforced");
                } else if tags.contains(&"map") && native.as_ref().err().map(|e| e.contains("expect a key-value pair")).unwrap_or(false) {
                    // known deviation, classified precisely (see known_findings.json)
                    return Outcome::Fail(Failure::new("map-native-rejects-wire-record-that-is-not-exactly-a-pair", describe()));
                } else if native.as_ref().err().map(|e| e.contains("is not a tuple type")).unwrap_or(false) {
                    return Outcome::Fail(Failure::new("tuple-native-rejects-wire-record-that-is-not-a-tuple", describe()));
                } else {
                    return Outcome::Fail(Failure::new(format!("native-rejects-untyped-accepts:{}", ops.name()), describe()));
                }
            }
            (Ok(_), Err(ue)) => {
                if ue.contains("Subtyping error: blob") && bytes.len() < 4096 {
                    // same root cause as C02-empty-vec-at-blob: the untyped blob path rejects an
                    // empty vector of another element type which the generic path accepts
                    return Outcome::Fail(Failure::new("untyped-blob-path-rejects-empty-vector-that-native-accepts", describe()));
                }
                return Outcome::Fail(Failure::new(format!("native-accepts-untyped-rejects:{}", ops.name()), describe()));
            }
        }
        if relation != "own-type-candid-encoder" || nondefault {
            let mut k = bytes.clone();
            k.extend_from_slice(ops.name().as_bytes());
            ctx.nontrivial(digest_of(&k));
        }
        ctx.sample(describe);
        Outcome::Pass
}

