//! C07 Decoding quotas bound the work and never change the result.

use crate::checks::c02::{gen_case, reference, RefOutcome};
use crate::corpus::registry::{registry, Api};
use crate::engine::panics::guard;
use crate::engine::{digest_of, Check, Ctx, Failure, Outcome, Tier};
use crate::gen::types::TypeCfg;
use crate::gen::Ent;
use crate::refmodel::rcoerce::count_values;
use crate::refmodel::ridl::from_idl;
use crate::refmodel::rtype::{self, Graph, Node, Prim, TId};
use crate::refmodel::rval::RVal;
use crate::refmodel::rwire::decode_message;
use candid::de::{DecoderConfig, IDLDeserialize};
use candid::types::{Type, TypeEnv};

pub struct C07;

type Cost = (Option<usize>, Option<usize>);

fn config(d: Option<usize>, s: Option<usize>) -> DecoderConfig {
    let mut c = DecoderConfig::new();
    if let Some(d) = d {
        c.set_decoding_quota(d);
    }
    if let Some(s) = s {
        c.set_skipping_quota(s);
    }
    c.set_full_error_message(false);
    c
}

fn untyped_decode(bytes: &[u8], env: &TypeEnv, tys: &[Type], cfg: &DecoderConfig) -> Result<(Vec<RVal>, Cost), String> {
    let mut de = IDLDeserialize::new_with_config(bytes, cfg).map_err(|e| e.to_string())?;
    let mut out = vec![];
    for t in tys {
        let v = de.get_value_with_type(env, t).map_err(|e| e.to_string())?;
        out.push(from_idl(&v).ok_or("unannotated value")?);
    }
    de.done().map_err(|e| e.to_string())?;
    let c = de.get_config().compute_cost(cfg);
    Ok((out, (c.decoding_quota, c.skipping_quota)))
}

/// The cost model documented on DecoderConfig::set_decoding_quota, for a value at its type.
fn model(g: &Graph, t: TId, v: &RVal, table_len: usize) -> u64 {
    use num_traits::Zero;
    match (&g.nodes[t], v) {
        (_, RVal::Nat(n)) => crate::refmodel::rleb::uleb_encode(n).len() as u64,
        (_, RVal::Int(n)) => crate::refmodel::rleb::sleb_encode(n).len() as u64 + if n.is_zero() { 0 } else { 0 },
        (_, RVal::Nat8(_)) | (_, RVal::Int8(_)) | (_, RVal::Bool(_)) | (_, RVal::Null) | (_, RVal::Reserved) => 1,
        (_, RVal::Nat16(_)) | (_, RVal::Int16(_)) => 2,
        (_, RVal::Nat32(_)) | (_, RVal::Int32(_)) | (_, RVal::Float32(_)) => 4,
        (_, RVal::Nat64(_)) | (_, RVal::Int64(_)) | (_, RVal::Float64(_)) => 8,
        (_, RVal::Text(s)) => 1 + s.len() as u64,
        (_, RVal::Opt(None)) => 2,
        (Node::Opt(x), RVal::Opt(Some(w))) => 2 + model(g, *x, w, table_len),
        (Node::Vec(x), RVal::Vec(vs)) => 2 + 3 * vs.len() as u64 + vs.iter().map(|w| model(g, *x, w, table_len)).sum::<u64>(),
        (Node::Record(fs), RVal::Record(vs)) => {
            2 + fs.iter().zip(vs).map(|((_, ft), (_, w))| 7 + 4 + model(g, *ft, w, table_len)).sum::<u64>()
        }
        (Node::Variant(fs), RVal::Variant(id, w)) => {
            let ft = fs.iter().find(|(i, _)| i == id).map(|x| x.1).unwrap_or(t);
            2 + 5 + 4 + model(g, ft, w, table_len)
        }
        (_, RVal::Principal(p)) => 30.max(p.len() as u64),
        (_, RVal::Service(p)) => 2 + 30.max(p.len() as u64) + table_len as u64,
        (_, RVal::Func(p, m)) => 2 + 30.max(p.len() as u64) + 1 + m.len() as u64 + table_len as u64,
        _ => 1,
    }
}

fn quota_candidates(e: &mut Ent, c: usize) -> Vec<usize> {
    let mut v = vec![0, c.saturating_sub(1), c, c + 1, c / 2, c.saturating_mul(2), usize::MAX / 4];
    v.push(e.u64() as usize % (c.saturating_mul(2) + 2));
    v
}

struct Decoder<'a> {
    name: String,
    run: Box<dyn Fn(&DecoderConfig) -> Result<Result<(Vec<RVal>, Cost), String>, crate::engine::panics::PanicInfo> + 'a>,
}

fn judge(dec: &Decoder, e: &mut Ent, lower_d: u64, lower_s: u64, upper_d: u64, describe: &dyn Fn() -> String, ctx: &mut Ctx) -> Result<bool, Failure> {
    judge_s(dec, e, lower_d, lower_s, upper_d, u64::MAX, describe, ctx)
}

/// `upper_s`: bound on the skipping cost (the same multiple of the documented model,
/// applied to the part of the message that is skipped or read as an untyped value).
#[allow(clippy::too_many_arguments)]
fn judge_s(dec: &Decoder, e: &mut Ent, lower_d: u64, lower_s: u64, upper_d: u64, upper_s: u64, describe: &dyn Fn() -> String, ctx: &mut Ctx) -> Result<bool, Failure> {
    let fail = |sig: &str, msg: String| Failure::new(format!("{sig}"), format!("{msg}\ndecoder: {}\n{}", dec.name, describe()));
    let run = |cfg: &DecoderConfig| -> Result<Result<(Vec<RVal>, Cost), String>, Failure> {
        (dec.run)(cfg).map_err(|p| fail(&format!("decode:{}", p.sig()), format!("panicked at {}: {}", p.location, p.message)))
    };
    // unmetered
    let r0 = run(&config(None, None))?;
    // huge quotas: the cost
    let huge = usize::MAX / 4;
    let rh = run(&config(Some(huge), Some(huge)))?;
    let (r0v, (cd, cs)) = match (&r0, &rh) {
        (Err(_), Err(_)) => {
            // unmetered fails: metered must fail too, for any quota
            for (d, s) in [(Some(0), None), (Some(1000), Some(1000)), (None, Some(0))] {
                if run(&config(d, s))?.is_ok() {
                    return Err(fail("metered-succeeds-where-unmetered-fails", format!("quotas {d:?}/{s:?}")));
                }
            }
            return Ok(false);
        }
        (Ok((v0, _)), Ok((vh, (Some(cd), Some(cs))))) => {
            if v0 != vh {
                return Err(fail("metered-result-differs", "result under huge quotas differs from the unmetered result".into()));
            }
            (v0.clone(), (*cd, *cs))
        }
        (a, b) => {
            return Err(fail(
                "metering-changes-outcome",
                format!("unmetered: {:?}; huge quotas: {:?}", a.as_ref().map(|_| "ok").map_err(|e| e.lines().next().unwrap_or("").to_string()), b.as_ref().map(|x| x.1).map_err(|e| e.lines().next().unwrap_or("").to_string())),
            ))
        }
    };
    ctx.note_max("max_decoding_cost", cd as i64);
    ctx.note_max("max_skipping_cost", cs as i64);
    // bounds
    if (cd as u64) < lower_d {
        return Err(fail("cost-below-number-of-values", format!("decoding cost {cd} < {lower_d} wire values materialised or skipped")));
    }
    if (cs as u64) < lower_s {
        return Err(fail("skipping-cost-below-skipped-values", format!("skipping cost {cs} < {lower_s} skipped wire values")));
    }
    if cd as u64 > upper_d {
        return Err(fail("cost-far-above-documented-model", format!("decoding cost {cd} > 16 x documented model + 256 = {upper_d}")));
    }
    if cs as u64 > upper_s {
        return Err(fail("skipping-cost-far-above-documented-model", format!("skipping cost {cs} > 16 x documented model of the skipped / untyped part + 256 = {upper_s}")));
    }
    if upper_s > 256 && upper_s != u64::MAX {
        ctx.note_max("max_skipping_cost_over_model_permille", (cs as u64 * 1000 / ((upper_s - 256) / 16).max(1)) as i64);
    }
    if upper_d > 256 && upper_d != u64::MAX {
        ctx.note_max("max_cost_over_model_permille", (cd as u64 * 1000 / ((upper_d - 256) / 16).max(1)) as i64);
    }
    // quota pairs around the cost
    let ds = quota_candidates(e, cd);
    let ss = quota_candidates(e, cs);
    for k in 0..8 {
        let (d, s) = (ds[e.below(ds.len())], ss[e.below(ss.len())]);
        let (dq, sq) = match k % 4 {
            0 => (Some(d), Some(s)),
            1 => (Some(d), None),
            2 => (None, Some(s)),
            _ => (Some(d), Some(s)),
        };
        let should = dq.map(|d| d >= cd).unwrap_or(true) && sq.map(|s| s >= cs).unwrap_or(true);
        match run(&config(dq, sq))? {
            Ok((v, cost)) => {
                if v != r0v {
                    return Err(fail("metered-result-differs", format!("quotas {dq:?}/{sq:?}")));
                }
                if !should {
                    return Err(fail("succeeds-below-measured-cost", format!("quotas {dq:?}/{sq:?} but measured cost is {cd}/{cs} (success must be monotone in both quotas)")));
                }
                if (dq.is_some() && cost.0 != Some(cd)) || (sq.is_some() && cost.1 != Some(cs)) {
                    return Err(fail("cost-depends-on-quota", format!("quotas {dq:?}/{sq:?} report cost {cost:?}, huge quotas report {cd}/{cs}")));
                }
            }
            Err(_) => {
                if should {
                    return Err(fail("fails-at-or-above-measured-cost", format!("quotas {dq:?}/{sq:?} fail although the measured cost is {cd}/{cs}")));
                }
            }
        }
    }
    Ok(true)
}

impl Check for C07 {
    fn id(&self) -> &'static str {
        "C07"
    }
    fn rule(&self) -> &'static str {
        "A case is a valid message with a decoder: untyped (generated wire types and values, expected types from upgrade steps in both directions, opt-wrappings, surplus/missing arguments - as C02 without byte mutation) or native (a corpus Rust type decoding a message of its own type or of another corpus type, so surplus fields, mismatched options, zero-sized elements, references and big numbers occur). Oracle: the unmetered result R0 and the cost (c_d, c_s) reported under huge quotas; for 8 quota pairs drawn from {0, c-1, c, c+1, c/2, 2c, huge, random} per quota (each quota possibly absent): decoding succeeds iff d >= c_d and s >= c_s, returns R0 and reports the same cost; if unmetered decoding fails, metered decoding fails; c_d >= number of wire values (vector elements counted individually, zero-sized included), c_s >= number of skipped wire values (all wire values for untyped decoding), and c_d <= 16 x (documented cost model on wire and result values, x50 when anything is skipped or decoding is untyped, + 4 x header bytes) + 256. Non-trivial = unmetered decoding succeeds and the message has a skipped value, a back-track, a zero-sized vector, a reference or a big number, or the expected type differs from the wire type; distinct = distinct (message, decoder)."
    }
    fn assumptions(&self) -> Vec<String> {
        vec![
            "quota failures are recognised as 'succeeds unmetered, fails metered', never by message text".into(),
            "the documented cost model is evaluated with |k| = 4 for every field key; the factor 16 and the constant 256 absorb expected-type bookkeeping".into(),
        ]
    }
    fn max_len(&self) -> usize {
        1024
    }
    fn cases(&self, tier: Tier) -> u64 {
        match tier {
            Tier::Quick => 60_000,
            Tier::Thorough => 2_500_000,
        }
    }
    fn one_case(&self, data: &[u8], ctx: &mut Ctx) -> Outcome {
        let mut e = Ent::new(data);
        if e.ratio(1, 12) {
            return zero_sized_case(&mut e, ctx);
        }
        if e.ratio(1, 3) {
            return native_case(&mut e, ctx);
        }
        let mut cfg = TypeCfg::default();
        cfg.odd_labels = false;
        let c = match gen_case(&mut e, &cfg, false) {
            Some(c) => c,
            None => return Outcome::Skip("uninhabited-wire-type"),
        };
        let r = reference(&c.bytes, &c.env, &c.exp_tys);
        let d = match decode_message(&c.bytes) {
            Ok(d) => d,
            Err(_) => return Outcome::Skip("not-a-valid-message"),
        };
        let cenv = rtype::env_to_candid(&c.env);
        let ctys: Vec<Type> = c.exp_tys.iter().map(rtype::to_candid).collect();
        let table_len = d.header.table.len();
        let header_cost = 4 * d.header.value_start as u64;
        let wire_count: u64 = d.values.iter().map(count_values).sum();
        let mw: u64 = d.values.iter().zip(&d.types.args).map(|(v, t)| model(&d.types.graph, *t, v, table_len)).sum();
        let (lower_d, lower_s, upper, nontrivial) = match &r {
            RefOutcome::Accept(vs, tr) => {
                // result-side model (covers defaulted fields and arguments)
                let mr: u64 = vs.iter().map(|v| 8 * count_values(v)).sum();
                let m = mw + mr + 16 * (c.exp_tys.len() as u64 + d.values.len() as u64);
                let nt = !tr.flags.is_empty() || c.relation != "identical";
                (wire_count, wire_count, 16 * (header_cost + 50 * m) + 256, nt)
            }
            RefOutcome::Reject(_) => (0, 0, u64::MAX, false),
            RefOutcome::Unspecified(w) => return Outcome::Skip(w),
        };
        ctx.class("untyped");
        ctx.class(c.relation);
        if let RefOutcome::Accept(_, tr) = &r {
            for f in &tr.flags {
                ctx.class(f);
            }
        }
        let bytes = c.bytes.clone();
        let dec = Decoder {
            name: "IDLDeserialize::get_value_with_type + done (untyped)".into(),
            run: Box::new(move |cfg| guard(|| untyped_decode(&bytes, &cenv, &ctys, cfg))),
        };
        let describe = || c.describe();
        match judge(&dec, &mut e, lower_d, lower_s, upper, &describe, ctx) {
            Ok(ok) => {
                if ok && nontrivial {
                    ctx.nontrivial(digest_of(&c.bytes) ^ digest_of(c.exp_tys.iter().map(rtype::emit_ty).collect::<Vec<_>>().join(",").as_bytes()));
                }
                ctx.class(if ok { "decodes" } else { "rejected-unmetered" });
                ctx.sample(|| c.describe());
                Outcome::Pass
            }
            Err(f) => Outcome::Fail(f),
        }
    }
}

fn zero_sized_or_big(v: &RVal) -> bool {
    match v {
        RVal::Nat(n) => n.bits() > 64,
        RVal::Int(n) => n.bits() > 63,
        RVal::Vec(vs) => vs.first().map(|x| matches!(x, RVal::Null | RVal::Reserved) || matches!(x, RVal::Record(f) if f.is_empty())).unwrap_or(false) || vs.iter().any(zero_sized_or_big),
        RVal::Opt(Some(x)) => zero_sized_or_big(x),
        RVal::Record(fs) => fs.iter().any(|(_, x)| zero_sized_or_big(x)),
        RVal::Variant(_, x) => zero_sized_or_big(x),
        RVal::Func(..) | RVal::Service(_) => true,
        _ => false,
    }
}

/// Long vectors of zero-sized elements: every element must be charged although it occupies no input.
fn zero_sized_case(e: &mut Ent, ctx: &mut Ctx) -> Outcome {
    use crate::refmodel::rwire::put_uleb;
    let n = *e.pick(&[1_000u64, 5_000, 20_000, 100_000]) + e.below(100) as u64;
    let mut m = b"DIDL".to_vec();
    let elem = e.below(3);
    match elem {
        0 => m.extend([1, 0x6d, 0x7f, 1, 0]),
        1 => m.extend([1, 0x6d, 0x70, 1, 0]),
        _ => m.extend([2, 0x6d, 1, 0x6c, 0, 1, 0]),
    }
    put_uleb(&mut m, n);
    let reg = registry();
    let native_name = match elem {
        0 => "Vec<()>",
        1 => "Vec<Reserved>",
        _ => "Vec<EmptyRec>",
    };
    let expected: Vec<(&str, Option<Type>)> = vec![
        ("same", None),
        ("reserved", Some(candid::types::TypeInner::Reserved.into())),
        ("opt-text", Some(candid::types::TypeInner::Opt(candid::types::TypeInner::Text.into()).into())),
    ];
    let (what, exp) = expected[e.below(expected.len())].clone();
    ctx.class("zero-sized-vector");
    let bytes = m.clone();
    let native = e.bool() && what == "same";
    let dec = if native {
        let ops = match reg.iter().find(|o| o.name() == native_name) {
            Some(o) => o.as_ref(),
            None => reg.iter().find(|o| o.name() == "Vec<()>").unwrap().as_ref(),
        };
        if ops.name() != native_name {
            return Outcome::Skip("no-native-type-for-element");
        }
        Decoder {
            name: format!("get_value::<{}>", ops.name()),
            run: Box::new(move |cfg| {
                let unmetered = cfg.decoding_quota.is_none() && cfg.skipping_quota.is_none();
                ops.decode(&bytes, Api::Builder, if unmetered { None } else { Some(cfg) })
                    .map(|r| r.map(|dn| (vec![dn.canon], dn.cost.unwrap_or((None, None)))))
            }),
        }
    } else {
        let d = match decode_message(&bytes) {
            Ok(d) => d,
            Err(_) => return Outcome::Skip("not-a-valid-message"),
        };
        let ty: Type = match exp {
            Some(t) => t,
            None => {
                let inner: Type = match elem {
                    0 => candid::types::TypeInner::Null.into(),
                    1 => candid::types::TypeInner::Reserved.into(),
                    _ => candid::types::TypeInner::Record(vec![]).into(),
                };
                let _ = d;
                candid::types::TypeInner::Vec(inner).into()
            }
        };
        Decoder {
            name: format!("untyped at {ty}"),
            run: Box::new(move |cfg| guard(|| untyped_decode(&bytes, &TypeEnv::new(), &[ty.clone()], cfg))),
        }
    };
    let describe = || format!("vec of {n} zero-sized elements ({}), expected {what}: {}", ["null", "reserved", "record {}"][elem], hex::encode(&m));
    // every element is a wire value; untyped decoding and skipping charge the skipping quota too
    let lower_s = if native { 0 } else { n };
    match judge(&dec, e, n, lower_s, u64::MAX, &describe, ctx) {
        Ok(ok) => {
            if ok {
                ctx.nontrivial(digest_of(&m) ^ digest_of(what.as_bytes()) ^ native as u64);
            }
            ctx.sample(describe);
            Outcome::Pass
        }
        Err(f) => Outcome::Fail(f),
    }
}

/// A native type reading a message that carries more than it asks for: surplus
/// arguments (skipped by `done`) or, for tuples and structs, surplus record fields.
/// The surplus values are skipped, so the skipping cost is at least their number;
/// the decoder entry point (IDLDeserialize, decode_args_with_config_debug,
/// Decode!(@Debug ..)) is a generated choice and all must report the same cost.
fn native_surplus_case(e: &mut Ent, ctx: &mut Ctx) -> Outcome {
    use crate::gen::types::{gen_ty, Scope};
    use crate::gen::values::ValGen;
    use crate::refmodel::rtype::{Builder, Lab, Ty};
    use crate::refmodel::rwire::{encode_message, Layout};
    let reg = registry();
    let j = e.below(reg.len());
    let ops = reg[j].as_ref();
    let (env, ty, _, _) = match crate::checks::c08::corpus_ty(ops) {
        Ok(x) => x,
        Err(_) => return Outcome::Skip("type-export-fails"),
    };
    let cfg = TypeCfg { refs: false, empty: false, ..TypeCfg::default() };
    let sc = Scope::empty();
    let k = e.range(1, 3);
    let extras: Vec<Ty> = (0..k).map(|_| gen_ty(e, &sc, 2, &cfg)).collect();
    // surplus record fields when the type is a record, else surplus arguments
    let mut resolved = &ty;
    for _ in 0..8 {
        if let Ty::Var(n) = resolved {
            match env.get(n) {
                Some(b) => resolved = b,
                None => break,
            }
        }
    }
    let as_fields = matches!(resolved, Ty::Record(_)) && e.bool();
    let (wire_tys, surplus_label): (Vec<Ty>, &'static str) = if as_fields {
        let mut fs = match resolved {
            Ty::Record(fs) => fs.clone(),
            _ => unreachable!(),
        };
        let tuple = fs.iter().enumerate().all(|(i, f)| f.0.id() == i as u32);
        let mut next = fs.iter().map(|f| f.0.id()).max().map(|m| m as u64 + 1).unwrap_or(0);
        for x in &extras {
            let id = if tuple { next } else { next + e.below(1000) as u64 };
            if id > u32::MAX as u64 {
                break;
            }
            fs.push((Lab::Id(id as u32), x.clone()));
            next = id + 1;
        }
        fs.sort_by_key(|f| f.0.id());
        (vec![Ty::Record(fs)], "surplus-record-fields")
    } else {
        let mut v = vec![ty.clone()];
        v.extend(extras.iter().cloned());
        (v, "surplus-arguments")
    };
    let mut b = Builder::new(&env);
    let mut roots = vec![];
    for t in &wire_tys {
        match b.ty(t) {
            Ok(r) => roots.push(r),
            Err(_) => return Outcome::Skip("wire-type-ill-formed"),
        }
    }
    let g = b.graph;
    let vg = ValGen::new(&g);
    let mut vals = vec![];
    for r in &roots {
        match vg.gen(e, *r, 3) {
            Some(v) => vals.push(v),
            None => return Outcome::Skip("uninhabited-wire-type"),
        }
    }
    let bytes = encode_message(&g, &roots, &vals, &Layout::default());
    let d = match decode_message(&bytes) {
        Ok(d) => d,
        Err(_) => return Outcome::Skip("not-a-valid-message"),
    };
    let table_len = d.header.table.len();
    let wire_count: u64 = d.values.iter().map(count_values).sum();
    // the surplus part, as wire values
    let skipped: u64 = if as_fields {
        let own: Vec<u32> = match resolved {
            Ty::Record(fs) => fs.iter().map(|f| f.0.id()).collect(),
            _ => vec![],
        };
        match &d.values[0] {
            RVal::Record(fs) => fs.iter().filter(|(id, _)| !own.contains(id)).map(|(_, v)| count_values(v)).sum(),
            _ => 0,
        }
    } else {
        d.values.iter().skip(1).map(count_values).sum()
    };
    let mw: u64 = d.values.iter().zip(&d.types.args).map(|(v, t)| model(&d.types.graph, *t, v, table_len)).sum();
    let header_cost = 4 * d.header.value_start as u64;
    let upper = 16 * (header_cost + 50 * (2 * mw + 64)) + 256;
    let api = *e.pick(&[Api::Builder, Api::Args, Api::Macros]);
    ctx.class("native");
    ctx.class(surplus_label);
    ctx.class(match api {
        Api::Builder => "entry-IDLDeserialize",
        Api::Args => "entry-decode_args_with_config_debug",
        Api::Macros => "entry-Decode!(@Debug)",
    });
    let bytes2 = bytes.clone();
    let dec = Decoder {
        name: format!("{:?} at {}", api, ops.name()),
        run: Box::new(move |cfg| {
            let unmetered = cfg.decoding_quota.is_none() && cfg.skipping_quota.is_none();
            ops.decode(&bytes2, api, if unmetered { None } else { Some(cfg) })
                .map(|r| r.map(|dn| (vec![dn.canon], dn.cost.unwrap_or((None, None)))))
        }),
    };
    let describe = || {
        format!(
            "{surplus_label}: wire ({}) values ({}) read at {}
bytes {}",
            wire_tys.iter().map(rtype::emit_ty).collect::<Vec<_>>().join(", "),
            vals.iter().map(crate::refmodel::rval::show).collect::<Vec<_>>().join(", "),
            ops.name(),
            hex::encode(&bytes)
        )
    };
    if std::env::var_os("VF_DEBUG").is_some() {
        eprintln!("{}", describe());
    }
    match judge(&dec, e, wire_count, skipped, upper, &describe, ctx) {
        Ok(ok) => {
            if ok {
                let mut k = bytes.clone();
                k.extend_from_slice(ops.name().as_bytes());
                ctx.nontrivial(digest_of(&k));
            }
            ctx.class(if ok { "decodes" } else { "rejected-unmetered" });
            ctx.sample(|| describe());
            Outcome::Pass
        }
        Err(f) => Outcome::Fail(f),
    }
}

/// Several arguments read one after the other from one deserializer, each either as
/// an untyped IDLValue or at its native type: reading one argument generically must
/// not change how the next is metered.
fn mixed_sequence_case(e: &mut Ent, ctx: &mut Ctx) -> Outcome {
    use candid::types::value::IDLValue;
    use candid::ser::IDLBuilder;
    let reg = registry();
    let n = e.range(2, 3);
    let idx: Vec<usize> = (0..n).map(|_| e.below(reg.len())).collect();
    let untyped: Vec<bool> = (0..n).map(|_| e.bool()).collect();
    let mut b = IDLBuilder::new();
    for i in &idx {
        if reg[*i].gen_into_builder(e, 2, &mut b).is_err() {
            return Outcome::Skip("encode-failed");
        }
    }
    let bytes = match guard(|| b.serialize_to_vec()) {
        Ok(Ok(b)) => b,
        _ => return Outcome::Skip("encode-failed"),
    };
    let d = match decode_message(&bytes) {
        Ok(d) => d,
        Err(_) => return Outcome::Skip("not-a-valid-message"),
    };
    let table_len = d.header.table.len();
    let wire_count: u64 = d.values.iter().map(count_values).sum();
    let per_arg: Vec<u64> = d.values.iter().zip(&d.types.args).map(|(v, t)| model(&d.types.graph, *t, v, table_len)).collect();
    let header_cost = 4 * d.header.value_start as u64;
    // Reading an argument as an IDLValue is metered like skipping it (documented with the
    // skipping quota: 50x in the decoding cost, and charged to the skipping quota); an
    // argument read at its native type is neither
    // (a native type that mentions `reserved` discards what it reads there, which is
    // skipping too)
    let mentions_reserved = |t: TId| -> bool {
        let g = &d.types.graph;
        let mut seen = vec![false; g.nodes.len()];
        let mut todo = vec![t];
        while let Some(x) = todo.pop() {
            if seen[x] {
                continue;
            }
            seen[x] = true;
            match &g.nodes[x] {
                Node::Prim(Prim::Reserved) => return true,
                Node::Opt(y) | Node::Vec(y) => todo.push(*y),
                Node::Record(fs) | Node::Variant(fs) => todo.extend(fs.iter().map(|f| f.1)),
                _ => {}
            }
        }
        false
    };
    let skippable: Vec<bool> = untyped.iter().zip(&d.types.args).map(|(u, t)| *u || mentions_reserved(*t)).collect();
    let m_untyped: u64 = per_arg.iter().zip(&skippable).filter(|(_, u)| **u).map(|(m, _)| 2 * m + 64).sum();
    let m_native: u64 = per_arg.iter().zip(&skippable).filter(|(_, u)| !**u).map(|(m, _)| 2 * m + 64).sum();
    let upper = 16 * (header_cost + 50 * m_untyped + m_native) + 256;
    let upper_s = 16 * m_untyped + 256;
    ctx.class("native");
    ctx.class("mixed-untyped-and-native-arguments");
    let bytes2 = bytes.clone();
    let idx2 = idx.clone();
    let untyped2 = untyped.clone();
    let dec = Decoder {
        name: format!("IDLDeserialize reading ({})", idx.iter().zip(&untyped).map(|(i, u)| if *u { "IDLValue".to_string() } else { reg[*i].name().to_string() }).collect::<Vec<_>>().join(", ")),
        run: Box::new(move |cfg| {
            guard(|| -> Result<(Vec<RVal>, Cost), String> {
                let mut de = IDLDeserialize::new_with_config(&bytes2, cfg).map_err(|e| format!("{e:?}"))?;
                let mut out = vec![];
                for (i, u) in idx2.iter().zip(&untyped2) {
                    if *u {
                        let v = de.get_value::<IDLValue>().map_err(|e| format!("{e:?}"))?;
                        out.push(from_idl(&v).unwrap_or(RVal::Null));
                    } else {
                        out.push(reg[*i].decode_next(&mut de)?.1);
                    }
                }
                de.done().map_err(|e| format!("{e:?}"))?;
                let c = de.get_config().compute_cost(cfg);
                Ok((out, (c.decoding_quota, c.skipping_quota)))
            })
        }),
    };
    let describe = || format!("message of ({}): {}", idx.iter().map(|i| reg[*i].name()).collect::<Vec<_>>().join(", "), hex::encode(&bytes));
    match judge_s(&dec, e, wire_count, 0, upper, upper_s, &describe, ctx) {
        Ok(ok) => {
            if ok {
                ctx.nontrivial(digest_of(&bytes));
            }
            ctx.class(if ok { "decodes" } else { "rejected-unmetered" });
            Outcome::Pass
        }
        Err(f) => Outcome::Fail(f),
    }
}

fn native_case(e: &mut Ent, ctx: &mut Ctx) -> Outcome {
    if e.ratio(1, 3) {
        return native_surplus_case(e, ctx);
    }
    if e.ratio(1, 4) {
        return mixed_sequence_case(e, ctx);
    }
    let reg = registry();
    let j = e.below(reg.len());
    // message: own type, or another corpus type (mostly fails; under Option it back-tracks)
    let i = if e.ratio(2, 3) { j } else { e.below(reg.len()) };
    let enc = match reg[i].gen_encode(e, 3, Api::Macros) {
        Ok(Ok(enc)) => enc,
        _ => return Outcome::Skip("encode-failed"),
    };
    let d = match decode_message(&enc.bytes) {
        Ok(d) => d,
        Err(_) => return Outcome::Skip("not-a-valid-message"),
    };
    let ops = reg[j].as_ref();
    let table_len = d.header.table.len();
    let wire_count: u64 = d.values.iter().map(count_values).sum();
    let mw: u64 = d.values.iter().zip(&d.types.args).map(|(v, t)| model(&d.types.graph, *t, v, table_len)).sum();
    let header_cost = 4 * d.header.value_start as u64;
    // expected side unknown in detail: allow the x50 penalty whenever the types differ
    let factor = if i == j { 1 } else { 50 };
    let upper = 16 * (header_cost + factor * (2 * mw + 64)) + 256;
    ctx.class("native");
    ctx.class(if i == j { "native-own-type" } else { "native-other-type" });
    for t in ops.tags() {
        if !t.contains('=') {
            ctx.class(t);
        }
    }
    let bytes = enc.bytes.clone();
    let api = *e.pick(&[Api::Builder, Api::Args, Api::Macros]);
    let dec = Decoder {
        name: format!("{:?} (IDLDeserialize / decode_args_with_config_debug / Decode!(@Debug)) at {}", api, ops.name()),
        run: Box::new(move |cfg| {
            let cfg2 = cfg.clone();
            let unmetered = cfg2.decoding_quota.is_none() && cfg2.skipping_quota.is_none();
            ops.decode(&bytes, api, if unmetered { None } else { Some(cfg) })
                .map(|r| r.map(|dn| (vec![dn.canon], dn.cost.unwrap_or((None, None)))))
        }),
    };
    let name_i = reg[i].name();
    let describe = || format!("message of a {name_i}: {}", hex::encode(&enc.bytes));
    // a native decoder materialises only what its type asks for; the whole wire value is either materialised or skipped
    match judge(&dec, e, wire_count, 0, upper, &describe, ctx) {
        Ok(ok) => {
            if ok && (i != j || zero_sized_or_big(&enc.wire)) {
                let mut k = enc.bytes.clone();
                k.extend_from_slice(ops.name().as_bytes());
                ctx.nontrivial(digest_of(&k));
            }
            ctx.class(if ok { "decodes" } else { "rejected-unmetered" });
            ctx.sample(|| format!("{} at {}", describe(), ops.name()));
            Outcome::Pass
        }
        Err(f) => Outcome::Fail(f),
    }
}

#[allow(dead_code)]
fn unused(_: Prim) {}
