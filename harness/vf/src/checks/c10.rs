//! C10 Untyped values survive annotate, encode and decode at their type.
//! C03 (untyped half) shares the generator: see c03.rs.

use crate::engine::panics::guard;
use crate::engine::{digest_of, Check, Ctx, Failure, Outcome, Tier};
use crate::gen::types::{gen_env, gen_ty, TypeCfg};
use crate::gen::values::ValGen;
use crate::gen::Ent;
use crate::refmodel::ridl::{from_idl, to_idl, ById, LabelNamer};
use crate::refmodel::rsub;
use crate::refmodel::rtype::{self, emit_env, emit_ty, Builder, Env, Graph, Lab, Node, Prim, TId, Ty};
use crate::refmodel::rval::{show, RVal};
use crate::refmodel::rwire::decode_message;
use candid::types::value::{IDLField, IDLValue, VariantValue};
use candid::types::{Label, Type, TypeEnv};
use candid::{IDLArgs, Principal};
use std::collections::BTreeMap;

pub struct C10;

pub struct NameMap(pub BTreeMap<u32, String>);
impl LabelNamer for NameMap {
    fn label(&self, id: u32) -> Label {
        match self.0.get(&id) {
            Some(n) => Label::Named(n.clone()),
            None => Label::Id(id),
        }
    }
}
pub fn collect_names(t: &Ty, out: &mut BTreeMap<u32, String>) {
    match t {
        Ty::Opt(x) | Ty::Vec(x) => collect_names(x, out),
        Ty::Record(fs) | Ty::Variant(fs) => {
            for (l, x) in fs {
                if let Lab::Named(n) = l {
                    out.insert(l.id(), n.clone());
                }
                collect_names(x, out);
            }
        }
        Ty::Func { args, rets, .. } => {
            for x in args.iter().chain(rets) {
                collect_names(x, out)
            }
        }
        Ty::Service(ms) => {
            for (_, x) in ms {
                collect_names(x, out)
            }
        }
        Ty::Class(a, x) => {
            for y in a {
                collect_names(y, out)
            }
            collect_names(x, out)
        }
        _ => {}
    }
}

pub struct Triple {
    pub env: Env,
    pub ty: Ty,
    pub graph: Graph,
    pub root: TId,
    pub val: RVal,
    pub names: NameMap,
}
impl Triple {
    pub fn describe(&self) -> String {
        format!(
            "env: {}type: {}\nvalue: {}",
            if self.env.defs.is_empty() { "-\n".into() } else { emit_env(&self.env) },
            emit_ty(&self.ty),
            show(&self.val)
        )
    }
}

pub fn gen_triple(e: &mut Ent, cfg: &TypeCfg) -> Option<Triple> {
    let (env, sc) = gen_env(e, cfg);
    let mut ty = gen_ty(e, &sc, cfg.max_depth, cfg);
    if cfg.wide_table && e.ratio(1, 25) {
        let n = e.range(60, 140);
        ty = crate::gen::types::deep_wrap(e, ty, n);
    }
    let mut b = Builder::new(&env);
    let root = b.ty(&ty).ok()?;
    let graph = b.graph;
    let vg = ValGen::new(&graph);
    let val = vg.gen(e, root, 5)?;
    let mut names = BTreeMap::new();
    for (_, t) in &env.defs {
        collect_names(t, &mut names);
    }
    collect_names(&ty, &mut names);
    Some(Triple {
        env,
        ty,
        graph,
        root,
        val,
        names: NameMap(names),
    })
}

/// "User form": what a user might write instead of the canonical form.
/// vec nat8 as Vec[Nat8..], nat where int is expected, Null at an option.
pub fn to_user_form(g: &Graph, t: TId, v: &RVal, namer: &dyn LabelNamer, e: &mut Ent, used: &mut Vec<&'static str>) -> IDLValue {
    match (&g.nodes[t], v) {
        (Node::Prim(Prim::Int), RVal::Int(n)) if n.sign() != num_bigint::Sign::Minus && e.bool() => {
            used.push("nat-for-int");
            IDLValue::Nat(candid::Nat(n.magnitude().clone()))
        }
        (Node::Opt(_), RVal::Opt(None)) if e.bool() => {
            used.push("null-for-none");
            IDLValue::Null
        }
        (Node::Opt(x), RVal::Opt(Some(w))) => IDLValue::Opt(Box::new(to_user_form(g, *x, w, namer, e, used))),
        (Node::Vec(x), RVal::Vec(vs)) => {
            if g.nodes[*x] == Node::Prim(Prim::Nat8) && e.bool() {
                used.push("vec-nat8-for-blob");
                IDLValue::Vec(vs.iter().map(|b| to_idl(g, *x, b, namer)).collect())
            } else if g.nodes[*x] == Node::Prim(Prim::Nat8) {
                to_idl(g, t, v, namer)
            } else {
                IDLValue::Vec(vs.iter().map(|w| to_user_form(g, *x, w, namer, e, used)).collect())
            }
        }
        (Node::Record(fs), RVal::Record(vs)) => {
            let mut out: Vec<IDLField> = vs
                .iter()
                .zip(fs)
                .map(|((id, w), (_, ft))| IDLField {
                    id: namer.label(*id),
                    val: to_user_form(g, *ft, w, namer, e, used),
                })
                .collect();
            // field order in a value is irrelevant
            if out.len() > 1 && e.bool() {
                out.reverse();
                used.push("fields-reordered");
            }
            // omitted optional/null/reserved fields are defaulted
            if e.ratio(1, 3) {
                let before = out.len();
                let keep: Vec<IDLField> = out
                    .iter()
                    .filter(|f| {
                        let id = f.id.get_id();
                        let ft = fs.iter().find(|(i, _)| *i == id).map(|x| x.1);
                        let w = vs.iter().find(|(i, _)| *i == id).map(|x| &x.1);
                        !(matches!(ft.map(|t| &g.nodes[t]), Some(Node::Opt(_)) | Some(Node::Prim(Prim::Null)) | Some(Node::Prim(Prim::Reserved)))
                            && matches!(w, Some(RVal::Opt(None)) | Some(RVal::Null) | Some(RVal::Reserved)))
                    })
                    .cloned()
                    .collect();
                if keep.len() < before {
                    used.push("defaulted-field");
                }
                out = keep;
            }
            IDLValue::Record(out)
        }
        (Node::Variant(fs), RVal::Variant(id, w)) => {
            let ft = fs.iter().find(|(i, _)| i == id).map(|x| x.1).unwrap_or(t);
            // deliberately wrong index: annotation must recompute it
            IDLValue::Variant(VariantValue(
                Box::new(IDLField {
                    id: namer.label(*id),
                    val: to_user_form(g, ft, w, namer, e, used),
                }),
                0,
            ))
        }
        _ => to_idl(g, t, v, namer),
    }
}

/// Count positions where a fault can be placed (type not reserved).
fn positions(g: &Graph, t: TId, v: &RVal) -> usize {
    if g.nodes[t] == Node::Prim(Prim::Reserved) {
        return 0;
    }
    1 + match (&g.nodes[t], v) {
        (Node::Opt(x), RVal::Opt(Some(w))) => positions(g, *x, w),
        (Node::Vec(x), RVal::Vec(vs)) => vs.iter().map(|w| positions(g, *x, w)).sum(),
        (Node::Record(fs), RVal::Record(vs)) => fs.iter().zip(vs).map(|((_, ft), (_, w))| positions(g, *ft, w)).sum(),
        (Node::Variant(fs), RVal::Variant(id, w)) => fs.iter().find(|(i, _)| i == id).map(|(_, ft)| positions(g, *ft, w)).unwrap_or(0),
        _ => 0,
    }
}

fn faulty_value(g: &Graph, t: TId, v: &RVal, e: &mut Ent, kind: &mut &'static str) -> IDLValue {
    let p = Principal::from_slice(&[1, 2, 3]);
    match &g.nodes[t] {
        Node::Prim(pr) => match pr {
            Prim::Nat8 => {
                *kind = "wrong-number-width";
                IDLValue::Nat16(7)
            }
            Prim::Nat16 => {
                *kind = "wrong-number-width";
                IDLValue::Nat8(7)
            }
            Prim::Nat32 => {
                *kind = "wrong-number-width";
                IDLValue::Nat64(7)
            }
            Prim::Nat64 => {
                *kind = "wrong-number-width";
                IDLValue::Nat32(7)
            }
            Prim::Int8 => {
                *kind = "wrong-number-width";
                IDLValue::Int16(7)
            }
            Prim::Int16 => {
                *kind = "wrong-number-width";
                IDLValue::Int32(7)
            }
            Prim::Int32 => {
                *kind = "wrong-number-width";
                IDLValue::Int64(7)
            }
            Prim::Int64 => {
                *kind = "wrong-number-width";
                IDLValue::Int8(7)
            }
            Prim::Nat => {
                *kind = "int-for-nat";
                IDLValue::Int(candid::Int::from(-1))
            }
            Prim::Int => {
                *kind = "fixed-width-for-int";
                IDLValue::Int64(1)
            }
            Prim::Float32 => {
                // a Float64 literal is the parser's undetermined float and is accepted at float32 by design
                *kind = "wrong-primitive";
                IDLValue::Nat8(1)
            }
            Prim::Float64 => {
                *kind = "wrong-number-width";
                IDLValue::Float32(1.5)
            }
            Prim::Bool => {
                *kind = "wrong-primitive";
                IDLValue::Text("true".into())
            }
            Prim::Text => {
                *kind = "wrong-primitive";
                if e.bool() {
                    IDLValue::Bool(true)
                } else {
                    IDLValue::Blob(b"abc".to_vec())
                }
            }
            Prim::Null => {
                *kind = "wrong-primitive";
                IDLValue::Bool(false)
            }
            Prim::Principal => {
                *kind = "wrong-reference-kind";
                if e.bool() {
                    IDLValue::Service(p)
                } else {
                    IDLValue::Func(p, "m".into())
                }
            }
            Prim::Reserved | Prim::Empty => unreachable!(),
        },
        Node::Opt(_) => {
            *kind = "non-option-at-option";
            IDLValue::Text("x".into())
        }
        Node::Vec(x) => {
            if g.nodes[*x] == Node::Prim(Prim::Nat8) {
                *kind = "text-for-blob";
                IDLValue::Text("abc".into())
            } else {
                *kind = "non-vector-at-vector";
                IDLValue::Bool(true)
            }
        }
        Node::Record(fs) => {
            // drop a non-optional field if there is one
            let required: Vec<usize> = fs
                .iter()
                .enumerate()
                .filter(|(_, (_, ft))| !g.null_sub(*ft))
                .map(|(i, _)| i)
                .collect();
            if let (RVal::Record(vs), false) = (v, required.is_empty()) {
                let k = required[e.below(required.len())];
                *kind = "missing-required-field";
                IDLValue::Record(
                    vs.iter()
                        .enumerate()
                        .filter(|(i, _)| *i != k)
                        .map(|(i, (id, w))| IDLField {
                            id: Label::Id(*id),
                            val: to_idl(g, fs[i].1, w, &ById),
                        })
                        .collect(),
                )
            } else {
                *kind = "non-record-at-record";
                IDLValue::Text("r".into())
            }
        }
        Node::Variant(fs) => {
            let mut id = e.u32();
            while fs.iter().any(|(i, _)| *i == id) {
                id = id.wrapping_add(1);
            }
            *kind = "unknown-variant-tag";
            IDLValue::Variant(VariantValue(
                Box::new(IDLField {
                    id: Label::Id(id),
                    val: IDLValue::Null,
                }),
                0,
            ))
        }
        Node::Func { .. } => {
            *kind = "wrong-reference-kind";
            if e.bool() {
                IDLValue::Principal(p)
            } else {
                IDLValue::Service(p)
            }
        }
        Node::Service(_) => {
            *kind = "wrong-reference-kind";
            if e.bool() {
                IDLValue::Principal(p)
            } else {
                IDLValue::Func(p, "m".into())
            }
        }
        Node::Future | Node::Hole => IDLValue::Null,
    }
}

/// Canonical value with exactly one fault at position `target`.
fn with_fault(g: &Graph, t: TId, v: &RVal, target: &mut isize, e: &mut Ent, kind: &mut &'static str) -> IDLValue {
    if g.nodes[t] == Node::Prim(Prim::Reserved) {
        return to_idl(g, t, v, &ById);
    }
    if *target == 0 {
        *target = -1;
        return faulty_value(g, t, v, e, kind);
    }
    if *target > 0 {
        *target -= 1;
    }
    match (&g.nodes[t], v) {
        (Node::Opt(x), RVal::Opt(Some(w))) => IDLValue::Opt(Box::new(with_fault(g, *x, w, target, e, kind))),
        (Node::Vec(x), RVal::Vec(vs)) if g.nodes[*x] != Node::Prim(Prim::Nat8) => {
            IDLValue::Vec(vs.iter().map(|w| with_fault(g, *x, w, target, e, kind)).collect())
        }
        (Node::Vec(x), RVal::Vec(vs)) => {
            // blob elements count as positions but are left intact
            for w in vs {
                if *target >= 0 {
                    *target -= positions(g, *x, w) as isize;
                    if *target < 0 {
                        *target = -2; // landed inside a blob: no fault placed
                    }
                }
            }
            to_idl(g, t, v, &ById)
        }
        (Node::Record(fs), RVal::Record(vs)) => IDLValue::Record(
            fs.iter()
                .zip(vs)
                .map(|((id, ft), (_, w))| IDLField {
                    id: Label::Id(*id),
                    val: with_fault(g, *ft, w, target, e, kind),
                })
                .collect(),
        ),
        (Node::Variant(fs), RVal::Variant(id, w)) => {
            let (idx, ft) = fs.iter().enumerate().find(|(_, (i, _))| i == id).map(|(k, (_, ft))| (k, *ft)).unwrap();
            IDLValue::Variant(VariantValue(
                Box::new(IDLField {
                    id: Label::Id(*id),
                    val: with_fault(g, ft, w, target, e, kind),
                }),
                idx as u64,
            ))
        }
        _ => to_idl(g, t, v, &ById),
    }
}

fn children(n: &Node) -> Vec<TId> {
    match n {
        Node::Opt(x) | Node::Vec(x) => vec![*x],
        Node::Record(fs) | Node::Variant(fs) => fs.iter().map(|f| f.1).collect(),
        Node::Func { args, rets, .. } => args.iter().chain(rets).copied().collect(),
        Node::Service(ms) => ms.iter().map(|m| m.1).collect(),
        _ => vec![],
    }
}
fn reachable(g: &Graph, from: TId) -> Vec<TId> {
    let mut seen = vec![false; g.nodes.len()];
    let mut work = vec![from];
    let mut out = vec![];
    while let Some(t) = work.pop() {
        if std::mem::replace(&mut seen[t], true) {
            continue;
        }
        out.push(t);
        work.extend(children(&g.nodes[t]));
    }
    out
}
/// Does the type contain a reference type (func/service) that mentions a
/// record without a finite value? The decoder rewrites such records to `empty`
/// in the wire table only, so its subtype check on the reference is not even
/// reflexive there (known finding C10-reference-over-uninhabited-record).
pub fn reference_over_uninhabited_record(g: &Graph, root: TId) -> bool {
    let inh = rsub::inhabited(g);
    reachable(g, root).into_iter().any(|t| {
        matches!(g.nodes[t], Node::Func { .. } | Node::Service(_))
            && reachable(g, t).into_iter().any(|u| matches!(g.nodes[u], Node::Record(_)) && !inh[u])
    })
}

fn is_composite(v: &RVal) -> bool {
    matches!(v, RVal::Opt(Some(_)) | RVal::Vec(_) | RVal::Record(_) | RVal::Variant(..))
}

macro_rules! g {
    ($name:expr, $e:expr) => {
        match guard(|| $e) {
            Ok(r) => r,
            Err(p) => {
                return Err(Failure::new(
                    format!("{}:{}", $name, p.sig()),
                    format!("{} panicked at {}: {}", $name, p.location, p.message),
                ))
            }
        }
    };
}

pub fn check_triple(tr: &Triple, e: &mut Ent, ctx: &mut Ctx) -> Result<(), Failure> {
    let cenv: TypeEnv = rtype::env_to_candid(&tr.env);
    let cty: Type = rtype::to_candid(&tr.ty);
    let g = &tr.graph;
    let namer: &dyn LabelNamer = if e.bool() { &ById } else { &tr.names };
    let canonical = to_idl(g, tr.root, &tr.val, namer);
    let mut used = vec![];
    let user = to_user_form(g, tr.root, &tr.val, namer, e, &mut used);
    for u in &used {
        ctx.class(u);
    }
    for (form, v) in [("canonical", &canonical), ("user-form", &user)] {
        for from_parser in [true, false] {
            let a = g!("annotate_type", v.annotate_type(from_parser, &cenv, &cty)).map_err(|err| {
                Failure::new(
                    format!("annotate_type:rejects-inhabitant:{form}"),
                    format!("annotate_type({from_parser}) of the {form} value failed: {err}\nvalue given: {v:?}"),
                )
            })?;
            if from_idl(&a).as_ref() != Some(&tr.val) {
                return Err(Failure::new(
                    format!("annotate_type:changes-meaning:{form}"),
                    format!("annotate_type({from_parser}) of {v:?} gives {a:?}, which denotes {:?}", from_idl(&a).map(|x| show(&x))),
                ));
            }
            let a2 = g!("annotate_type", a.annotate_type(from_parser, &cenv, &cty)).map_err(|err| {
                Failure::new("annotate_type:not-idempotent", format!("re-annotating {a:?} failed: {err}"))
            })?;
            if from_idl(&a2) != from_idl(&a) || format!("{a2:?}") != format!("{a:?}") {
                return Err(Failure::new("annotate_type:not-idempotent", format!("{a:?} re-annotates to {a2:?}")));
            }
        }
        // typed encoding
        let args = IDLArgs { args: vec![v.clone()] };
        let bytes = g!("to_bytes_with_types", args.to_bytes_with_types(&cenv, &[cty.clone()])).map_err(|err| {
            Failure::new(
                format!("to_bytes_with_types:rejects-inhabitant:{form}"),
                format!("to_bytes_with_types of the {form} value failed: {err}\nvalue given: {v:?}"),
            )
        })?;
        let bytes2 = g!("to_bytes_with_types", args.to_bytes_with_types(&cenv, &[cty.clone()])).map_err(|err| Failure::new("to_bytes_with_types:second-call-fails", err.to_string()))?;
        if bytes != bytes2 {
            return Err(Failure::new("to_bytes_with_types:not-deterministic", format!("{} vs {}", hex::encode(&bytes), hex::encode(&bytes2))));
        }
        // independent decoder reads back the same type and value
        let d = decode_message(&bytes).map_err(|werr| {
            Failure::new(
                "to_bytes_with_types:malformed-output",
                format!("independent decoder rejects the encoder output ({werr:?}): {}", hex::encode(&bytes)),
            )
        })?;
        if d.nonminimal_structural || d.nonminimal_value {
            return Err(Failure::new("to_bytes_with_types:non-minimal-leb128", hex::encode(&bytes)));
        }
        if d.values.len() != 1 || d.values[0] != tr.val {
            return Err(Failure::new(
                "to_bytes_with_types:wrong-value-on-wire",
                format!("wire values {:?} from {}", d.values.iter().map(show).collect::<Vec<_>>(), hex::encode(&bytes)),
            ));
        }
        if !rsub::equal_across(g, tr.root, &d.types.graph, d.types.args[0]) {
            return Err(Failure::new(
                "to_bytes_with_types:wrong-type-on-wire",
                format!("wire type {} from {}", rtype::show_node(&d.types.graph, d.types.args[0], 4), hex::encode(&bytes)),
            ));
        }
        // decoding at t and with no expected type returns v
        let back = g!("from_bytes_with_types", IDLArgs::from_bytes_with_types(&bytes, &cenv, &[cty.clone()])).map_err(|err| {
            let sig = if reference_over_uninhabited_record(g, tr.root) {
                "roundtrip:decode-at-type-fails:reference-type-over-uninhabited-record"
            } else {
                "roundtrip:decode-at-type-fails"
            };
            Failure::new(sig, format!("{err:?}\nbytes {}", hex::encode(&bytes)))
        })?;
        if back.args.len() != 1 || from_idl(&back.args[0]).as_ref() != Some(&tr.val) {
            let sig = if reference_over_uninhabited_record(g, tr.root) {
                "roundtrip:decode-at-type-fails:reference-type-over-uninhabited-record"
            } else {
                "roundtrip:decode-at-type-differs"
            };
            return Err(Failure::new(sig, format!("got {back} from {}", hex::encode(&bytes))));
        }
        let back2 = g!("from_bytes", IDLArgs::from_bytes(&bytes)).map_err(|err| Failure::new("roundtrip:untyped-decode-fails", format!("{err:?}\nbytes {}", hex::encode(&bytes))))?;
        if back2.args.len() != 1 || from_idl(&back2.args[0]).as_ref() != Some(&tr.val) {
            return Err(Failure::new("roundtrip:untyped-decode-differs", format!("got {back2} from {}", hex::encode(&bytes))));
        }
    }
    // near miss
    let npos = positions(g, tr.root, &tr.val);
    if npos > 0 {
        let mut target = e.below(npos) as isize;
        let mut kind: &'static str = "";
        let faulty = with_fault(g, tr.root, &tr.val, &mut target, e, &mut kind);
        if !kind.is_empty() {
            ctx.class(kind);
            ctx.class("near-miss");
            let r = g!("annotate_type", faulty.annotate_type(true, &cenv, &cty));
            if let Ok(a) = r {
                return Err(Failure::new(
                    format!("near-miss-accepted:annotate_type:{kind}"),
                    format!("value with one fault ({kind}) {faulty:?}\nwas annotated to {a:?}"),
                ));
            }
            let r = g!("to_bytes_with_types", IDLArgs { args: vec![faulty.clone()] }.to_bytes_with_types(&cenv, &[cty.clone()]));
            if let Ok(b) = r {
                return Err(Failure::new(
                    format!("near-miss-accepted:to_bytes_with_types:{kind}"),
                    format!("value with one fault ({kind}) {faulty:?}\nwas encoded to {}", hex::encode(b)),
                ));
            }
        }
    }
    Ok(())
}

impl Check for C10 {
    fn id(&self) -> &'static str {
        "C10"
    }
    fn rule(&self) -> &'static str {
        "A case is (environment, type t, inhabitant v : t) with generated, possibly recursive environments. v is given in canonical form and in a 'user form' (vec of nat8 for a blob, nat for a non-negative int, Null for an absent option, fields reordered, defaultable fields omitted, variant index 0). Checked: annotate_type (both modes) succeeds, keeps the abstract value, is idempotent; to_bytes_with_types is deterministic and an independent decoder reads back t (bisimilar) and v with minimal LEB128; from_bytes_with_types at t and from_bytes return v. Near-miss: the canonical value with exactly one fault at a random non-reserved position (wrong number width, int for nat, wrong primitive, text for blob, non-option at option, missing required field, unknown tag, wrong reference kind) must be rejected by annotate_type(true) and to_bytes_with_types. Non-trivial = the value has a composite node; distinct = distinct (type, value)."
    }
    fn assumptions(&self) -> Vec<String> {
        vec![
            "a record value with surplus fields is not treated as a near-miss (width subtyping)".into(),
            "to_bytes() without types is not claimed by the property and not judged".into(),
        ]
    }
    fn max_len(&self) -> usize {
        768
    }
    fn cases(&self, tier: Tier) -> u64 {
        match tier {
            Tier::Quick => 1_000_000,
            Tier::Thorough => 40_000_000,
        }
    }
    fn one_case(&self, data: &[u8], ctx: &mut Ctx) -> Outcome {
        let mut e = Ent::new(data);
        let mut cfg = TypeCfg::default();
        cfg.odd_labels = e.ratio(1, 4);
        cfg.wide_table = true;
        let tr = match gen_triple(&mut e, &cfg) {
            Some(t) => t,
            None => return Outcome::Skip("uninhabited-type"),
        };
        if cfg.odd_labels {
            ctx.class("odd-labels");
        }
        if !tr.env.defs.is_empty() {
            ctx.class("with-definitions");
        }
        if tr.graph.nodes.len() > 64 {
            ctx.class("type-graph-over-64-nodes");
        }
        match &tr.val {
            RVal::Variant(..) => ctx.class("variant-root"),
            RVal::Record(_) => ctx.class("record-root"),
            RVal::Vec(_) => ctx.class("vec-root"),
            RVal::Func(..) | RVal::Service(_) | RVal::Principal(_) => ctx.class("reference-root"),
            _ => {}
        }
        if is_composite(&tr.val) {
            let k = format!("{}|{}", emit_ty(&tr.ty), show(&tr.val));
            ctx.nontrivial(digest_of(k.as_bytes()));
        }
        let r = check_triple(&tr, &mut e, ctx);
        ctx.sample(|| tr.describe());
        match r {
            Ok(()) => Outcome::Pass,
            Err(f) => Outcome::Fail(Failure::new(f.sig, format!("{}\n{}", f.msg, tr.describe()))),
        }
    }
}
