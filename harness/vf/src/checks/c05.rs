//! C05 Subtype and upgrade checks decide the spec relation, independent of order.
//! Oracle: refmodel::rsub (greatest fixed point over reachable pairs).

use crate::engine::panics::guard;
use crate::engine::{digest_of, Check, Ctx, Failure, Outcome, Tier};
use crate::gen::types::{gen_env, gen_ty, Scope, TypeCfg};
use crate::gen::upgrade::{step, Dir};
use crate::gen::Ent;
use crate::refmodel::rsub;
use crate::refmodel::rtype::{self, emit_prog, emit_ty, Builder, Env, Lab, Mode, Prim, Ty};
use candid::types::subtype::{equal, subtype, subtype_check_all, subtype_with_config, Gamma, OptReport};
use candid::types::{Type, TypeEnv};
use candid_parser::utils::{service_compatibility_report, service_compatible, service_equal, CandidSource};

pub struct C05;

fn gag_stderr() {
    static ONCE: std::sync::Once = std::sync::Once::new();
    ONCE.call_once(|| unsafe {
        if std::env::var_os("VF_KEEP_STDERR").is_none() {
            let fd = libc::open(b"/dev/null\0".as_ptr() as *const libc::c_char, libc::O_WRONLY);
            if fd >= 0 {
                libc::dup2(fd, 2);
            }
        }
    });
}

/// Small closed universe of types over the given atoms.
pub fn universe(atoms: &[Ty]) -> Vec<Ty> {
    let mut u: Vec<Ty> = atoms.to_vec();
    for a in atoms {
        u.push(Ty::opt(a.clone()));
        u.push(Ty::vec(a.clone()));
        u.push(Ty::Record(vec![(Lab::Id(0), a.clone())]));
        u.push(Ty::Variant(vec![(Lab::Id(0), a.clone())]));
    }
    for a in atoms {
        for b in atoms {
            u.push(Ty::Record(vec![(Lab::Id(0), a.clone()), (Lab::Id(1), b.clone())]));
            u.push(Ty::Variant(vec![(Lab::Id(0), a.clone()), (Lab::Id(1), b.clone())]));
            u.push(Ty::Func { args: vec![a.clone()], rets: vec![b.clone()], modes: vec![] });
            u.push(Ty::Func { args: vec![a.clone()], rets: vec![b.clone()], modes: vec![Mode::Query] });
            u.push(Ty::Service(vec![("m".into(), Ty::Func { args: vec![a.clone()], rets: vec![b.clone()], modes: vec![] })]));
        }
    }
    u
}

pub fn atoms(tier: Tier) -> Vec<Ty> {
    let mut a = vec![
        Ty::Prim(Prim::Nat),
        Ty::Prim(Prim::Int),
        Ty::Prim(Prim::Null),
        Ty::Prim(Prim::Empty),
        Ty::var("A"),
    ];
    if tier == Tier::Thorough {
        a.push(Ty::Prim(Prim::Reserved));
        a.push(Ty::Prim(Prim::Text));
        a.push(Ty::Prim(Prim::Principal));
    }
    a
}

struct Q<'a> {
    env: &'a Env,
    cenv: TypeEnv,
}
impl<'a> Q<'a> {
    fn new(env: &'a Env) -> Q<'a> {
        Q { env, cenv: rtype::env_to_candid(env) }
    }
    fn reference(&self, a: &Ty, b: &Ty) -> Option<bool> {
        let mut bl = Builder::new(self.env);
        let ra = bl.ty(a).ok()?;
        let rb = bl.ty(b).ok()?;
        Some(rsub::subtype(&bl.graph, ra, rb))
    }
    fn reference_eq(&self, a: &Ty, b: &Ty) -> Option<bool> {
        let mut bl = Builder::new(self.env);
        let ra = bl.ty(a).ok()?;
        let rb = bl.ty(b).ok()?;
        Some(rsub::equal(&bl.graph, ra, rb))
    }
}

fn fail(sig: &str, env: &Env, a: &Ty, b: &Ty, extra: String) -> Failure {
    Failure::new(
        sig,
        format!("{extra}\nenv:\n{}t1 = {}\nt2 = {}", rtype::emit_env(env), emit_ty(a), emit_ty(b)),
    )
}

fn impl_sub(g: &mut Gamma, cenv: &TypeEnv, a: &Type, b: &Type) -> Result<bool, Failure> {
    match guard(|| subtype_with_config(OptReport::Silence, g, cenv, a, b).is_ok()) {
        Ok(r) => Ok(r),
        Err(p) => Err(Failure::new(format!("subtype:{}", p.sig()), format!("subtype panicked at {}: {}", p.location, p.message))),
    }
}

/// One enumerated row: environment `type A = U[envi]`, left type U[i], all right types U[j].
fn run_row(tier: Tier, envi: usize, i: usize, ctx: &mut Ctx) -> Outcome {
    gag_stderr();
    let u = universe(&atoms(tier));
    if envi >= u.len() || i >= u.len() {
        return Outcome::Skip("out-of-universe");
    }
    // A vacuous definition (type A = A) is not a program; skip that environment.
    if u[envi] == Ty::var("A") {
        return Outcome::Skip("vacuous-definition");
    }
    let env = Env { defs: vec![("A".into(), u[envi].clone())] };
    let q = Q::new(&env);
    let ci = rtype::to_candid(&u[i]);
    let mut shared = Gamma::new();
    let mut yes = 0;
    for (j, tj) in u.iter().enumerate() {
        let want = match q.reference(&u[i], tj) {
            Some(w) => w,
            None => continue,
        };
        let cj = rtype::to_candid(tj);
        let fresh = match impl_sub(&mut Gamma::new(), &q.cenv, &ci, &cj) {
            Ok(r) => r,
            Err(f) => return Outcome::Fail(f),
        };
        if fresh != want {
            return Outcome::Fail(fail(
                if want { "subtype:rejects-pair-in-relation" } else { "subtype:accepts-pair-outside-relation" },
                &env,
                &u[i],
                tj,
                format!("fresh memo: implementation says {fresh}, greatest fixed point says {want} (row {envi}/{i}, column {j})"),
            ));
        }
        let sh = match impl_sub(&mut shared, &q.cenv, &ci, &cj) {
            Ok(r) => r,
            Err(f) => return Outcome::Fail(f),
        };
        if sh != want {
            return Outcome::Fail(fail(
                if want { "subtype:history-dependent:rejects" } else { "subtype:history-dependent:accepts" },
                &env,
                &u[i],
                tj,
                format!("memo shared with the {j} earlier queries of this row: implementation says {sh}, relation says {want}"),
            ));
        }
        if want {
            yes += 1;
        }
    }
    ctx.class("exhaustive-row");
    ctx.note("exhaustive_pairs", u.len() as i64);
    ctx.note("exhaustive_pairs_in_relation", yes);
    ctx.nontrivial(digest_of(&[(envi >> 8) as u8, envi as u8, (i >> 8) as u8, i as u8, 0xee]));
    ctx.sample(|| format!("type A = {}; {} <: each of the {} universe types ({} in the relation)", emit_ty(&u[envi]), emit_ty(&u[i]), u.len(), yes));
    Outcome::Pass
}

/// Program text `service : { m : () -> (t) }` over env, with definitions
/// optionally renamed and reordered and fields permuted.
fn prog_text(env: &Env, t: &Ty, variant: u8) -> String {
    let mut env2 = env.clone();
    let mut t2 = t.clone();
    if variant & 1 != 0 {
        env2.defs.reverse();
    }
    if variant & 2 != 0 {
        // rename every definition
        let names: Vec<String> = env2.defs.iter().map(|d| d.0.clone()).collect();
        fn ren(t: &Ty, names: &[String]) -> Ty {
            match t {
                Ty::Var(n) if names.contains(n) => Ty::Var(format!("R_{n}")),
                Ty::Opt(x) => Ty::opt(ren(x, names)),
                Ty::Vec(x) => Ty::vec(ren(x, names)),
                Ty::Record(fs) => Ty::Record(fs.iter().map(|(l, x)| (l.clone(), ren(x, names))).collect()),
                Ty::Variant(fs) => Ty::Variant(fs.iter().map(|(l, x)| (l.clone(), ren(x, names))).collect()),
                Ty::Func { args, rets, modes } => Ty::Func {
                    args: args.iter().map(|x| ren(x, names)).collect(),
                    rets: rets.iter().map(|x| ren(x, names)).collect(),
                    modes: modes.clone(),
                },
                Ty::Service(ms) => Ty::Service(ms.iter().map(|(n, x)| (n.clone(), ren(x, names))).collect()),
                other => other.clone(),
            }
        }
        for d in env2.defs.iter_mut() {
            d.1 = ren(&d.1, &names);
            d.0 = format!("R_{}", d.0);
        }
        t2 = ren(&t2, &names);
    }
    if variant & 4 != 0 {
        fn perm(t: &Ty) -> Ty {
            match t {
                Ty::Opt(x) => Ty::opt(perm(x)),
                Ty::Vec(x) => Ty::vec(perm(x)),
                Ty::Record(fs) => Ty::Record(fs.iter().rev().map(|(l, x)| (l.clone(), perm(x))).collect()),
                Ty::Variant(fs) => Ty::Variant(fs.iter().rev().map(|(l, x)| (l.clone(), perm(x))).collect()),
                Ty::Func { args, rets, modes } => Ty::Func {
                    args: args.iter().map(perm).collect(),
                    rets: rets.iter().map(perm).collect(),
                    modes: modes.clone(),
                },
                Ty::Service(ms) => Ty::Service(ms.iter().rev().map(|(n, x)| (n.clone(), perm(x))).collect()),
                other => other.clone(),
            }
        }
        for d in env2.defs.iter_mut() {
            d.1 = perm(&d.1);
        }
        t2 = perm(&t2);
    }
    let actor = Ty::Service(vec![("m".into(), Ty::Func { args: vec![], rets: vec![t2], modes: vec![] })]);
    emit_prog(&env2, Some(&actor))
}

impl Check for C05 {
    fn id(&self) -> &'static str {
        "C05"
    }
    fn rule(&self) -> &'static str {
        "Enumerated: universe U = atoms {nat, int, null, empty, A} (thorough adds reserved, text, principal) plus every constructor applied once to atoms (opt, vec, record/variant with one or two fields, func with one argument and one result with/without query, service with one method); for every environment `type A = u` with u in U (quick: every 3rd) and every left type, one row asks all |U| right types twice: with a fresh memo and with one memo shared along the row (history). Generated: environments with up to 6 mutually recursive definitions and pairs that are upgrade-step neighbours or independent; for each, fresh query, query after up to 6 earlier successful queries on the same memo, subtype() and subtype_with_config, subtype_check_all, equal, reflexivity, transitivity over a third type, and the text entry points service_compatible / service_compatibility_report / service_equal on programs printed with definitions reordered and renamed and fields permuted. Oracle: the greatest fixed point of the spec's rules (including the two unusual opt rules) over the reachable pairs, and bisimilarity for equality. Non-trivial = a side mentions a definition or both sides are composite; distinct = distinct (environment, pair)."
    }
    fn assumptions(&self) -> Vec<String> {
        vec![
            "OptReport::Error mode is not judged (the spec's premise for the strict rule is ambiguous); Silence and Warning modes are".into(),
            "function annotations are compared as sets; generated function types carry at most one annotation".into(),
        ]
    }
    fn max_len(&self) -> usize {
        768
    }
    fn cases(&self, tier: Tier) -> u64 {
        match tier {
            Tier::Quick => 400_000,
            Tier::Thorough => 15_000_000,
        }
    }
    fn exhaustive_note(&self, tier: Tier) -> Option<String> {
        let n = universe(&atoms(tier)).len();
        Some(format!(
            "all ordered pairs of the {n}-type universe, for {} of the {n} single-definition environments over it, each pair with a fresh and with a row-shared memo",
            if tier == Tier::Quick { "every third" } else { "all" }
        ))
    }
    fn enumerate(&self, tier: Tier, shard: u64, nshards: u64, emit: &mut dyn FnMut(&[u8]) -> bool) {
        let n = universe(&atoms(tier)).len();
        let mut idx = 0u64;
        let stride = if tier == Tier::Quick { 3 } else { 1 };
        for envi in (0..n).step_by(stride) {
            for i in 0..n {
                idx += 1;
                if idx % nshards != shard {
                    continue;
                }
                let d = [tier as u8, (envi >> 8) as u8, envi as u8, (i >> 8) as u8, i as u8];
                if !emit(&d) {
                    return;
                }
            }
        }
    }
    fn direct_case(&self, data: &[u8], ctx: &mut Ctx) -> Outcome {
        if data.first() == Some(&b'{') {
            // JSON {"env": Env, "t1": Ty, "t2": Ty}: fresh query, report and text entry point
            #[derive(serde::Deserialize)]
            struct D {
                env: Env,
                t1: Ty,
                t2: Ty,
            }
            let d: D = match serde_json::from_slice(data) {
                Ok(d) => d,
                Err(_) => return Outcome::Skip("bad-direct-case"),
            };
            gag_stderr();
            let q = Q::new(&d.env);
            let want = match q.reference(&d.t1, &d.t2) {
                Some(w) => w,
                None => return Outcome::Skip("ill-formed"),
            };
            let (c1, c2) = (rtype::to_candid(&d.t1), rtype::to_candid(&d.t2));
            match impl_sub(&mut Gamma::new(), &q.cenv, &c1, &c2) {
                Ok(r) if r == want => {}
                Ok(r) => {
                    return Outcome::Fail(fail(
                        if want { "subtype:rejects-pair-in-relation" } else { "subtype:accepts-pair-outside-relation" },
                        &d.env, &d.t1, &d.t2, format!("implementation says {r}, relation says {want}"),
                    ))
                }
                Err(f) => return Outcome::Fail(f),
            }
            let (p1, p2) = (prog_text(&d.env, &d.t1, 0), prog_text(&d.env, &d.t2, 0));
            match guard(|| service_compatible(CandidSource::Text(&p1), CandidSource::Text(&p2)).map_err(|e| e.to_string())) {
                Ok(r) if r.is_ok() == want => {}
                Ok(r) => return Outcome::Fail(fail("service_compatible:disagrees", &d.env, &d.t1, &d.t2, format!("{r:?} vs relation {want}"))),
                Err(p) => return Outcome::Fail(Failure::new(format!("service_compatible:{}", p.sig()), p.message)),
            }
            ctx.class("direct-pair");
            return Outcome::Pass;
        }
        if data.len() < 5 {
            return Outcome::Skip("bad-direct-case");
        }
        let tier = if data[0] == 0 { Tier::Quick } else { Tier::Thorough };
        run_row(tier, ((data[1] as usize) << 8) | data[2] as usize, ((data[3] as usize) << 8) | data[4] as usize, ctx)
    }
    fn one_case(&self, data: &[u8], ctx: &mut Ctx) -> Outcome {
        gag_stderr();
        let mut e = Ent::new(data);
        let mut cfg = TypeCfg::default();
        cfg.max_defs = 6;
        cfg.max_depth = 2;
        cfg.max_fields = 3;
        let (mut env, sc) = gen_env(&mut e, &cfg);
        let mut t1 = gen_ty(&mut e, &sc, 3, &cfg);
        let primed = !env.defs.is_empty() && e.ratio(1, 3);
        let mut split: Option<(Env, Env, Ty)> = None;
        let (t2, rel) = if primed {
            // old/new interface pair: every definition gets a primed copy, one of
            // them edited at a random position; the query relates a type over the
            // old names with the same type over the new names
            let names: Vec<String> = env.defs.iter().map(|d| d.0.clone()).collect();
            let mut copies: Vec<(String, Ty)> = env.defs.iter().map(|(n, t)| (format!("{n}_new"), prime(t, &names))).collect();
            let k = e.below(copies.len());
            let d = *e.pick(&[Dir::Unrelated, Dir::Unrelated, Dir::Super, Dir::Sub]);
            let edited = step(&mut e, &env, &sc, &copies[k].1, d, &cfg, 0);
            // keep aliases aliases and methods functions: only accept edits that keep the constructor
            if std::mem::discriminant(&edited) == std::mem::discriminant(&copies[k].1) && !matches!(edited, Ty::Var(_)) {
                copies[k].1 = edited;
            }
            env.defs.extend(copies);
            // interfaces mention several definitions, optional ones first
            if e.bool() && names.len() >= 2 {
                let a = Ty::Var(names[e.below(names.len())].clone());
                let b = Ty::Var(names[e.below(names.len())].clone());
                // the optional member is sometimes an inline structural type around the name
                let a = match e.below(5) {
                    0 => Ty::Record(vec![(Lab::Named("a".into()), a)]),
                    1 => Ty::vec(a),
                    2 => Ty::Variant(vec![(Lab::Named("c".into()), a), (Lab::Named("d".into()), Ty::Prim(Prim::Null))]),
                    _ => a,
                };
                t1 = match e.below(3) {
                    0 => Ty::Record(vec![(Lab::Named("p".into()), Ty::opt(a)), (Lab::Named("q".into()), Ty::vec(b))]),
                    1 => Ty::Record(vec![(Lab::Named("p".into()), Ty::opt(a)), (Lab::Named("q".into()), b)]),
                    _ => Ty::Service(vec![
                        ("m1".into(), Ty::Func { args: vec![], rets: vec![Ty::opt(a)], modes: vec![] }),
                        ("m2".into(), Ty::Func { args: vec![], rets: vec![b], modes: vec![] }),
                    ]),
                };
            }
            // for the text entry points: the old program holds the old definitions only, the
            // new program the new ones only, some of them under their old names again (so the
            // two programs define the same name differently, next to names only one of them has)
            let keep: Vec<String> = names.iter().filter(|_| e.bool()).cloned().collect();
            let unprime = |t: &Ty| -> Ty { rename_vars(t, &|n: &str| match n.strip_suffix("_new") { Some(b) if keep.iter().any(|k| k == b) => b.to_string(), _ => n.to_string() }) };
            let old_env = Env { defs: env.defs[..names.len()].to_vec() };
            let new_env = Env {
                defs: env.defs[names.len()..]
                    .iter()
                    .map(|(n, t)| (match n.strip_suffix("_new") { Some(b) if keep.iter().any(|k| k == b) => b.to_string(), _ => n.clone() }, unprime(t)))
                    .collect(),
            };
            // (an edit may have introduced a reference to an old definition: then the new
            // program is not self-contained and the combined environment is used instead)
            let t2u = unprime(&prime(&t1, &names));
            let defined: Vec<&String> = new_env.defs.iter().map(|d| &d.0).collect();
            let mut mentioned: Vec<String> = vec![];
            for (_, t) in &new_env.defs {
                vars_of(t, &mut mentioned);
            }
            vars_of(&t2u, &mut mentioned);
            // ... and before un-priming, the new definitions must mention new names only:
            // an old name could otherwise be captured by an un-primed definition of the
            // same name and change meaning
            let mut raw: Vec<String> = vec![];
            for (_, t) in &env.defs[names.len()..] {
                vars_of(t, &mut raw);
            }
            let pure = raw.iter().all(|n| n.strip_suffix("_new").map(|b| names.iter().any(|k| k == b)).unwrap_or(false));
            if pure && mentioned.iter().all(|n| defined.contains(&n)) {
                split = Some((old_env, new_env, t2u));
            }
            (prime(&t1, &names), "primed-copy")
        } else {
            match e.below(6) {
            0 => (gen_ty(&mut e, &sc, 3, &cfg), "independent"),
            1 => (t1.clone(), "identical"),
            2 | 3 => {
                let mut t = t1.clone();
                for _ in 0..e.range(1, 3) {
                    t = step(&mut e, &env, &sc, &t, Dir::Super, &cfg, 0);
                }
                (t, "supertype-steps")
            }
            4 => {
                let mut t = t1.clone();
                for _ in 0..e.range(1, 2) {
                    t = step(&mut e, &env, &sc, &t, Dir::Sub, &cfg, 0);
                }
                (t, "subtype-steps")
            }
            _ => {
                let mut t = t1.clone();
                for _ in 0..e.range(1, 3) {
                    let d = *e.pick(&[Dir::Super, Dir::Sub, Dir::Unrelated]);
                    t = step(&mut e, &env, &sc, &t, d, &cfg, 0);
                }
                (t, "mixed-steps")
            }
            }
        };
        // out-of-phase comparisons: some names are replaced by their definitions (once or
        // twice), which denotes the same type but makes the two sides unfold at different
        // positions, so that a recursive pair may never meet name against name
        let (t1, t2) = if !env.defs.is_empty() && e.ratio(1, 4) {
            ctx.class("names-unfolded-out-of-phase");
            let mut a = t1.clone();
            let mut b = t2.clone();
            for _ in 0..e.range(1, 2) {
                match e.below(3) {
                    0 => a = unfold_some(&env, &a, &mut e),
                    1 => b = unfold_some(&env, &b, &mut e),
                    _ => {
                        a = unfold_some(&env, &a, &mut e);
                        b = unfold_some(&env, &b, &mut e);
                    }
                }
            }
            (a, b)
        } else {
            (t1, t2)
        };
        let q = Q::new(&env);
        let want = match q.reference(&t1, &t2) {
            Some(w) => w,
            None => return Outcome::Skip("ill-formed"),
        };
        let (c1, c2) = (rtype::to_candid(&t1), rtype::to_candid(&t2));
        ctx.class(rel);
        ctx.class(if want { "in-relation" } else { "not-in-relation" });
        // fresh query, both entry points
        let fresh = match impl_sub(&mut Gamma::new(), &q.cenv, &c1, &c2) {
            Ok(r) => r,
            Err(f) => return Outcome::Fail(f),
        };
        if fresh != want {
            return Outcome::Fail(fail(
                if want { "subtype:rejects-pair-in-relation" } else { "subtype:accepts-pair-outside-relation" },
                &env, &t1, &t2,
                format!("fresh memo: implementation says {fresh}, greatest fixed point says {want}"),
            ));
        }
        match guard(|| subtype(&mut Gamma::new(), &q.cenv, &c1, &c2).is_ok()) {
            Ok(r) if r == want => {}
            Ok(r) => return Outcome::Fail(fail("subtype(warning-mode):disagrees", &env, &t1, &t2, format!("subtype() says {r}, relation says {want}"))),
            Err(p) => return Outcome::Fail(Failure::new(format!("subtype:{}", p.sig()), p.message)),
        }
        match guard(|| subtype_check_all(&mut Gamma::new(), &q.cenv, &c1, &c2)) {
            Ok(errs) => {
                if errs.is_empty() != want {
                    return Outcome::Fail(fail(
                        "subtype_check_all:disagrees", &env, &t1, &t2,
                        format!("subtype_check_all reports {} incompatibilities, relation says {want}: {:?}", errs.len(), errs.iter().map(|e| e.to_string()).collect::<Vec<_>>()),
                    ));
                }
            }
            Err(p) => return Outcome::Fail(Failure::new(format!("subtype_check_all:{}", p.sig()), p.message)),
        }
        // history: earlier successful queries on the same memo
        let k = e.range(0, 6);
        if k > 0 {
            let mut g = Gamma::new();
            let mut done = 0;
            for _ in 0..k * 2 {
                let a = gen_ty(&mut e, &sc, 2, &cfg);
                let b = if e.bool() { step(&mut e, &env, &sc, &a, Dir::Super, &cfg, 0) } else { gen_ty(&mut e, &sc, 2, &cfg) };
                let (ca, cb) = (rtype::to_candid(&a), rtype::to_candid(&b));
                let mut g2 = g.clone();
                if let Ok(true) = impl_sub(&mut g2, &q.cenv, &ca, &cb) {
                    // only successful queries may leave their memo behind
                    if q.reference(&a, &b) == Some(true) {
                        g = g2;
                        done += 1;
                    }
                }
                if done >= k {
                    break;
                }
            }
            if done > 0 {
                ctx.class("with-history");
                let after = match impl_sub(&mut g, &q.cenv, &c1, &c2) {
                    Ok(r) => r,
                    Err(f) => return Outcome::Fail(f),
                };
                if after != want {
                    return Outcome::Fail(fail(
                        if want { "subtype:history-dependent:rejects" } else { "subtype:history-dependent:accepts" },
                        &env, &t1, &t2,
                        format!("after {done} successful queries on the same memo the implementation says {after}, relation says {want}"),
                    ));
                }
            }
        }
        // laws
        for t in [&t1, &t2] {
            let c = rtype::to_candid(t);
            if let Ok(false) = impl_sub(&mut Gamma::new(), &q.cenv, &c, &c) {
                return Outcome::Fail(fail("subtype:not-reflexive", &env, t, t, String::new()));
            }
        }
        let t3 = if e.bool() { step(&mut e, &env, &sc, &t2, Dir::Super, &cfg, 0) } else { gen_ty(&mut e, &sc, 2, &cfg) };
        let c3 = rtype::to_candid(&t3);
        // The spec's own relation is not transitive across a dropped and re-added
        // field of type `null` (record {f:reserved} <: record {} <: record {f:null}),
        // so the law is only demanded when neither outer type mentions `null`.
        if fresh && (mentions_null(&env, &t3, &mut vec![]) || mentions_null(&env, &t1, &mut vec![])) {
            ctx.class("transitivity-skipped-null-in-outer-types");
        } else if fresh {
            if let (Ok(true), Ok(false)) = (impl_sub(&mut Gamma::new(), &q.cenv, &c2, &c3), impl_sub(&mut Gamma::new(), &q.cenv, &c1, &c3)) {
                return Outcome::Fail(fail("subtype:not-transitive", &env, &t1, &t3, format!("via t2 = {}", emit_ty(&t2))));
            }
            ctx.class("transitivity-premise-held");
        }
        let want_eq = q.reference_eq(&t1, &t2).unwrap_or(false);
        match guard(|| equal(&mut Gamma::new(), &q.cenv, &c1, &c2).is_ok()) {
            Ok(r) if r == want_eq => {
                if r {
                    ctx.class("structurally-equal");
                    let back = impl_sub(&mut Gamma::new(), &q.cenv, &c2, &c1);
                    if !(fresh && matches!(back, Ok(true))) {
                        return Outcome::Fail(fail("equal-but-not-subtype-both-ways", &env, &t1, &t2, String::new()));
                    }
                }
            }
            Ok(r) => return Outcome::Fail(fail("equal:disagrees-with-bisimilarity", &env, &t1, &t2, format!("equal says {r}, bisimilarity says {want_eq}"))),
            Err(p) => return Outcome::Fail(Failure::new(format!("equal:{}", p.sig()), p.message)),
        }
        // text entry points with definitions reordered/renamed and fields permuted
        if e.ratio(1, 3) {
            let (v1, v2) = (e.u8() & 7, e.u8() & 7);
            let (p1, p2) = match &split {
                Some((old_env, new_env, t2u)) if e.ratio(2, 3) => {
                    ctx.class("text-entry-points-separate-programs-sharing-names");
                    // renaming (bit 2) would undo the name sharing
                    (prog_text(old_env, &t1, v1 & 5), prog_text(new_env, t2u, v2 & 5))
                }
                _ => (prog_text(&env, &t1, v1), prog_text(&env, &t2, v2)),
            };
            ctx.class("text-entry-points");
            let r = guard(|| service_compatible(CandidSource::Text(&p1), CandidSource::Text(&p2)).map_err(|e| e.to_string()));
            match r {
                Ok(Ok(())) if want => {}
                Ok(Err(err)) if !want => {
                    let _ = err;
                }
                Ok(other) => {
                    return Outcome::Fail(fail(
                        "service_compatible:disagrees", &env, &t1, &t2,
                        format!("service_compatible gives {other:?}, relation says {want}\nnew program:\n{p1}\nold program:\n{p2}"),
                    ))
                }
                Err(p) => return Outcome::Fail(Failure::new(format!("service_compatible:{}", p.sig()), format!("{}\n{p1}\n{p2}", p.message))),
            }
            match guard(|| service_compatibility_report(CandidSource::Text(&p1), CandidSource::Text(&p2)).map_err(|e| e.to_string())) {
                Ok(Ok(errs)) => {
                    if errs.is_empty() != want {
                        return Outcome::Fail(fail("service_compatibility_report:disagrees", &env, &t1, &t2, format!("{} incompatibilities reported, relation says {want}\n{p1}\n{p2}", errs.len())));
                    }
                }
                Ok(Err(err)) => return Outcome::Fail(fail("service_compatibility_report:error", &env, &t1, &t2, format!("{err}\n{p1}\n{p2}"))),
                Err(p) => return Outcome::Fail(Failure::new(format!("service_compatibility_report:{}", p.sig()), p.message)),
            }
            match guard(|| service_equal(CandidSource::Text(&p1), CandidSource::Text(&p2)).is_ok()) {
                Ok(r) if r == want_eq => {}
                Ok(r) => return Outcome::Fail(fail("service_equal:disagrees", &env, &t1, &t2, format!("service_equal says {r}, bisimilarity says {want_eq}\n{p1}\n{p2}"))),
                Err(p) => return Outcome::Fail(Failure::new(format!("service_equal:{}", p.sig()), p.message)),
            }
        }
        let composite = |t: &Ty| !matches!(t, Ty::Prim(_));
        if (composite(&t1) && composite(&t2)) || matches!(t1, Ty::Var(_)) || matches!(t2, Ty::Var(_)) {
            let k = format!("{}|{}|{}", rtype::emit_env(&env), emit_ty(&t1), emit_ty(&t2));
            ctx.nontrivial(digest_of(k.as_bytes()));
        }
        ctx.sample(|| format!("{}{} <: {} ? {want} [{rel}]", rtype::emit_env(&env), emit_ty(&t1), emit_ty(&t2)));
        Outcome::Pass
    }
}

/// Old/new interface pair over `env` (extended in place with an edited `_new` copy
/// of every definition): returns (type over the old names, the same type over the
/// new names). Used by C04 as a source of pairs for which the checker has to probe
/// below `opt` and back out.
pub(crate) fn primed_pair(e: &mut Ent, env: &mut Env, sc: &Scope, cfg: &TypeCfg) -> (Ty, Ty) {
    let names: Vec<String> = env.defs.iter().map(|d| d.0.clone()).collect();
    let mut copies: Vec<(String, Ty)> = env.defs.iter().map(|(n, t)| (format!("{n}_new"), prime(t, &names))).collect();
    let k = e.below(copies.len());
    let d = *e.pick(&[Dir::Unrelated, Dir::Unrelated, Dir::Super, Dir::Sub]);
    let edited = step(e, env, sc, &copies[k].1, d, cfg, 0);
    if std::mem::discriminant(&edited) == std::mem::discriminant(&copies[k].1) && !matches!(edited, Ty::Var(_)) {
        copies[k].1 = edited;
    }
    env.defs.extend(copies);
    let a = Ty::Var(names[e.below(names.len())].clone());
    let b = Ty::Var(names[e.below(names.len())].clone());
    let a = match e.below(5) {
        0 => Ty::Record(vec![(Lab::Named("a".into()), a)]),
        1 => Ty::vec(a),
        2 => Ty::Variant(vec![(Lab::Named("c".into()), a), (Lab::Named("d".into()), Ty::Prim(Prim::Null))]),
        _ => a,
    };
    let t1 = match e.below(3) {
        0 => Ty::Record(vec![(Lab::Named("p".into()), Ty::opt(a)), (Lab::Named("q".into()), Ty::vec(b))]),
        1 => Ty::Record(vec![(Lab::Named("p".into()), Ty::opt(a)), (Lab::Named("q".into()), b)]),
        _ => Ty::Record(vec![(Lab::Named("p".into()), Ty::opt(a)), (Lab::Named("q".into()), Ty::opt(Ty::vec(b.clone()))), (Lab::Named("r".into()), b)]),
    };
    let t2 = prime(&t1, &names);
    (t1, t2)
}

/// Replace some occurrences of defined names by their definition (one level).
fn unfold_some(env: &Env, t: &Ty, e: &mut Ent) -> Ty {
    match t {
        Ty::Var(n) => match env.get(n) {
            Some(body) if e.ratio(2, 3) => body.clone(),
            _ => t.clone(),
        },
        Ty::Opt(x) => Ty::opt(unfold_some(env, x, e)),
        Ty::Vec(x) => Ty::vec(unfold_some(env, x, e)),
        Ty::Record(fs) => Ty::Record(fs.iter().map(|(l, x)| (l.clone(), unfold_some(env, x, e))).collect()),
        Ty::Variant(fs) => Ty::Variant(fs.iter().map(|(l, x)| (l.clone(), unfold_some(env, x, e))).collect()),
        Ty::Func { args, rets, modes } => Ty::Func {
            args: args.iter().map(|x| unfold_some(env, x, e)).collect(),
            rets: rets.iter().map(|x| unfold_some(env, x, e)).collect(),
            modes: modes.clone(),
        },
        Ty::Service(ms) => Ty::Service(ms.iter().map(|(n, x)| (n.clone(), unfold_some(env, x, e))).collect()),
        other => other.clone(),
    }
}

fn vars_of(t: &Ty, out: &mut Vec<String>) {
    match t {
        Ty::Var(n) => out.push(n.clone()),
        Ty::Opt(x) | Ty::Vec(x) => vars_of(x, out),
        Ty::Record(fs) | Ty::Variant(fs) => fs.iter().for_each(|f| vars_of(&f.1, out)),
        Ty::Func { args, rets, .. } => args.iter().chain(rets.iter()).for_each(|x| vars_of(x, out)),
        Ty::Service(ms) => ms.iter().for_each(|m| vars_of(&m.1, out)),
        Ty::Class(a, s) => {
            a.iter().for_each(|x| vars_of(x, out));
            vars_of(s, out)
        }
        Ty::Prim(_) => {}
    }
}

fn rename_vars(t: &Ty, f: &dyn Fn(&str) -> String) -> Ty {
    match t {
        Ty::Var(n) => Ty::Var(f(n)),
        Ty::Opt(x) => Ty::opt(rename_vars(x, f)),
        Ty::Vec(x) => Ty::vec(rename_vars(x, f)),
        Ty::Record(fs) => Ty::Record(fs.iter().map(|(l, x)| (l.clone(), rename_vars(x, f))).collect()),
        Ty::Variant(fs) => Ty::Variant(fs.iter().map(|(l, x)| (l.clone(), rename_vars(x, f))).collect()),
        Ty::Func { args, rets, modes } => Ty::Func {
            args: args.iter().map(|x| rename_vars(x, f)).collect(),
            rets: rets.iter().map(|x| rename_vars(x, f)).collect(),
            modes: modes.clone(),
        },
        Ty::Service(ms) => Ty::Service(ms.iter().map(|(n, x)| (n.clone(), rename_vars(x, f))).collect()),
        other => other.clone(),
    }
}

pub(crate) fn prime(t: &Ty, names: &[String]) -> Ty {
    match t {
        Ty::Var(n) if names.contains(n) => Ty::Var(format!("{n}_new")),
        Ty::Opt(x) => Ty::opt(prime(x, names)),
        Ty::Vec(x) => Ty::vec(prime(x, names)),
        Ty::Record(fs) => Ty::Record(fs.iter().map(|(l, x)| (l.clone(), prime(x, names))).collect()),
        Ty::Variant(fs) => Ty::Variant(fs.iter().map(|(l, x)| (l.clone(), prime(x, names))).collect()),
        Ty::Func { args, rets, modes } => Ty::Func {
            args: args.iter().map(|x| prime(x, names)).collect(),
            rets: rets.iter().map(|x| prime(x, names)).collect(),
            modes: modes.clone(),
        },
        Ty::Service(ms) => Ty::Service(ms.iter().map(|(n, x)| (n.clone(), prime(x, names))).collect()),
        other => other.clone(),
    }
}

fn mentions_null(env: &Env, t: &Ty, seen: &mut Vec<String>) -> bool {
    match t {
        Ty::Prim(Prim::Null) => true,
        Ty::Prim(_) => false,
        Ty::Var(n) => {
            if seen.contains(n) {
                return false;
            }
            seen.push(n.clone());
            env.get(n).map(|b| mentions_null(env, &b.clone(), seen)).unwrap_or(false)
        }
        Ty::Opt(x) | Ty::Vec(x) => mentions_null(env, x, seen),
        Ty::Record(fs) | Ty::Variant(fs) => fs.iter().any(|(_, x)| mentions_null(env, x, seen)),
        Ty::Func { args, rets, .. } => args.iter().chain(rets).any(|x| mentions_null(env, x, seen)),
        Ty::Service(ms) => ms.iter().any(|(_, x)| mentions_null(env, x, seen)),
        Ty::Class(a, x) => a.iter().any(|y| mentions_null(env, y, seen)) || mentions_null(env, x, seen),
    }
}

#[allow(dead_code)]
fn unused(_: &Scope) {}
