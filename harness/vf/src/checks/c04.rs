//! C04 Accepted subtyping means decoding at the supertype cannot fail.

use crate::checks::c02::gen_layout;
use crate::checks::c10::reference_over_uninhabited_record;
use crate::corpus::registry::{registry, Api};
use crate::engine::panics::guard;
use crate::engine::{digest_of, Check, Ctx, Failure, Outcome, Tier};
use crate::gen::types::{gen_env, gen_ty, TypeCfg};
use crate::gen::upgrade::{step, Dir};
use crate::gen::values::ValGen;
use crate::gen::Ent;
use crate::refmodel::ridl::{from_idl, to_idl, ById};
use crate::refmodel::rtype::{self, emit_env, emit_ty, Builder, Graph, Node, Prim, TId};
use crate::refmodel::rval::{inhabits, show, RVal};
use crate::refmodel::rwire::encode_message;
use candid::types::subtype::{subtype_with_config, Gamma, OptReport};
use candid::IDLArgs;

pub struct C04;

/// v ~ w : smallest homomorphic, reflexive, symmetric relation with opt v ~ null.
fn related(a: &RVal, b: &RVal) -> bool {
    match (a, b) {
        (RVal::Opt(None), RVal::Opt(_)) | (RVal::Opt(_), RVal::Opt(None)) => true,
        (RVal::Opt(Some(x)), RVal::Opt(Some(y))) => related(x, y),
        (RVal::Vec(xs), RVal::Vec(ys)) => xs.len() == ys.len() && xs.iter().zip(ys).all(|(x, y)| related(x, y)),
        (RVal::Record(xs), RVal::Record(ys)) => xs.len() == ys.len() && xs.iter().zip(ys).all(|(x, y)| x.0 == y.0 && related(&x.1, &y.1)),
        (RVal::Variant(i, x), RVal::Variant(j, y)) => i == j && related(x, y),
        (x, y) => x == y,
    }
}

/// Is there, somewhere, an expected `vec nat8` facing a wire vector of another element type?
fn blob_region(g: &Graph, t: TId, t2: TId, seen: &mut Vec<(TId, TId)>) -> bool {
    if seen.contains(&(t, t2)) {
        return false;
    }
    seen.push((t, t2));
    match (&g.nodes[t], &g.nodes[t2]) {
        (Node::Vec(a), Node::Vec(b)) => {
            (g.nodes[*b] == Node::Prim(Prim::Nat8) && g.nodes[*a] != Node::Prim(Prim::Nat8)) || blob_region(g, *a, *b, seen)
        }
        (Node::Opt(a), Node::Opt(b)) => blob_region(g, *a, *b, seen),
        (_, Node::Opt(b)) => blob_region(g, t, *b, seen),
        (Node::Record(f1), Node::Record(f2)) | (Node::Variant(f1), Node::Variant(f2)) => f2
            .iter()
            .any(|(i, y)| f1.iter().find(|(j, _)| j == i).map(|(_, x)| blob_region(g, *x, *y, seen)).unwrap_or(false)),
        _ => false,
    }
}

/// Is a cycle consisting only of `opt` nodes reachable from `root`?
fn opt_only_cycle(g: &Graph, root: TId) -> bool {
    let mut seen = vec![false; g.nodes.len()];
    let mut work = vec![root];
    while let Some(t) = work.pop() {
        if std::mem::replace(&mut seen[t], true) {
            continue;
        }
        // follow opt edges from t
        let mut cur = t;
        let mut steps = 0;
        while let Node::Opt(x) = &g.nodes[cur] {
            cur = *x;
            steps += 1;
            if cur == t {
                return true;
            }
            if steps > g.nodes.len() {
                return true;
            }
        }
        match &g.nodes[t] {
            Node::Opt(x) | Node::Vec(x) => work.push(*x),
            Node::Record(fs) | Node::Variant(fs) => work.extend(fs.iter().map(|f| f.1)),
            Node::Func { args, rets, .. } => work.extend(args.iter().chain(rets).copied()),
            Node::Service(ms) => work.extend(ms.iter().map(|m| m.1)),
            _ => {}
        }
    }
    false
}

// All corpus types exported into one environment (per thread: candid types are Rc).
thread_local! {
    static NATIVE_TYPES: (candid::TypeEnv, Vec<candid::types::Type>) = {
        let reg = registry();
        let mut c = candid::types::internal::TypeContainer::new();
        let tys: Vec<_> = reg.iter().map(|o| o.add_to(&mut c)).collect();
        (c.env, tys)
    };
}

/// Does the implementation's checker accept corpus type i <: corpus type j?
fn native_accepts(i: usize, j: usize) -> bool {
    NATIVE_TYPES.with(|(env, tys)| {
        guard(|| subtype_with_config(OptReport::Silence, &mut Gamma::new(), env, &tys[i], &tys[j]).is_ok()).unwrap_or(false)
    })
}

impl Check for C04 {
    fn id(&self) -> &'static str {
        "C04"
    }
    fn rule(&self) -> &'static str {
        "Untyped: (environment, t, t', values of t) where t' comes from t by 1-4 upgrade steps (mostly supertype direction; also independent types, accepted mainly through opt/reserved/empty), kept only if the implementation's subtype check accepts t <: t'. For each generated v : t, encoded both by the harness's encoder (layout variations) and by to_bytes_with_types, from_bytes_with_types at t' must succeed with a value inhabiting t'. Chains t <: t' <: t'': decoding directly at t'' and decoding at t', re-encoding at t', decoding at t'' must be related by the smallest homomorphic reflexive symmetric relation with opt v ~ null. Native: every ordered pair (X, Y) of the ~230 corpus Rust types whose exported Candid types the checker relates; a generated x : X encoded with Encode! must decode at Y (128-bit host limits aside). Non-trivial = t and t' are not the same type expression and the value is not a bare primitive; distinct = distinct (types, value)."
    }
    fn assumptions(&self) -> Vec<String> {
        vec![
            "the implication is only exercised on pairs the implementation's checker accepts; whether it accepts the right pairs is C05".into(),
            "known-finding regions shared with C02/C08/C10 (blob path, map and tuple shapes, references over uninhabited records) are classified by structure and tolerated by exact signature".into(),
        ]
    }
    fn max_len(&self) -> usize {
        1024
    }
    fn cases(&self, tier: Tier) -> u64 {
        match tier {
            Tier::Quick => 1_000_000,
            Tier::Thorough => 40_000_000,
        }
    }
    fn one_case(&self, data: &[u8], ctx: &mut Ctx) -> Outcome {
        let mut e = Ent::new(data);
        if e.ratio(1, 4) {
            return native_case(&mut e, ctx);
        }
        let mut cfg = TypeCfg::default();
        cfg.odd_labels = e.ratio(1, 6);
        let (mut env, sc) = gen_env(&mut e, &cfg);
        let mut t = gen_ty(&mut e, &sc, cfg.max_depth, &cfg);
        let chain = e.ratio(1, 3);
        let mut t2 = t.clone();
        let fresh = e.ratio(1, 8);
        let primed = !env.defs.is_empty() && e.ratio(1, 6);
        if primed {
            // old/new copies of the environment with one edit: the checker probes below opt
            let (a, b) = crate::checks::c05::primed_pair(&mut e, &mut env, &sc, &cfg);
            t = a;
            t2 = b;
        } else if fresh {
            t2 = gen_ty(&mut e, &sc, 2, &cfg);
        } else {
            for _ in 0..e.range(1, 4) {
                let d = if e.ratio(1, 6) { Dir::Sub } else { Dir::Super };
                t2 = step(&mut e, &env, &sc, &t2, d, &cfg, 0);
            }
        }
        let mut t3 = t2.clone();
        if chain {
            for _ in 0..e.range(1, 3) {
                t3 = step(&mut e, &env, &sc, &t3, Dir::Super, &cfg, 0);
            }
        }
        let cenv = rtype::env_to_candid(&env);
        let (ct, ct2, ct3) = (rtype::to_candid(&t), rtype::to_candid(&t2), rtype::to_candid(&t3));
        let sub = |a: &candid::types::Type, b: &candid::types::Type| guard(|| subtype_with_config(OptReport::Silence, &mut Gamma::new(), &cenv, a, b).is_ok());
        match sub(&ct, &ct2) {
            Ok(true) => {}
            Ok(false) => return Outcome::Skip("checker-rejects-pair"),
            Err(p) => return Outcome::Fail(Failure::new(format!("subtype:{}", p.sig()), p.message)),
        }
        let mut b = Builder::new(&env);
        let (r, r2, r3) = match (b.ty(&t), b.ty(&t2), b.ty(&t3)) {
            (Ok(a), Ok(b2), Ok(c)) => (a, b2, c),
            _ => return Outcome::Skip("ill-formed"),
        };
        let g = b.graph;
        // `type T = opt T`-style cycles have no finite coercion derivation; the
        // implementation answers with its recursion limit (documented limits clause)
        if opt_only_cycle(&g, r2) || opt_only_cycle(&g, r3) {
            return Outcome::Skip("unproductive-opt-cycle-in-supertype");
        }
        let vg = ValGen::new(&g);
        if !vg.inhabited(r) {
            return Outcome::Skip("uninhabited-subtype");
        }
        ctx.class(if primed { "old-new-environment-pair" } else if fresh { "independent-pair" } else { "upgrade-steps" });
        let describe = |v: &RVal| {
            format!(
                "env:\n{}t   = {}\nt'  = {}\nt'' = {}\nv = {}",
                emit_env(&env),
                emit_ty(&t),
                emit_ty(&t2),
                emit_ty(&t3),
                show(v)
            )
        };
        let known_region = |v: &RVal| -> Option<&'static str> {
            if blob_region(&g, r, r2, &mut vec![]) || blob_region(&g, r2, r3, &mut vec![]) || blob_region(&g, r, r3, &mut vec![]) {
                let _ = v;
                return Some("untyped-decode:empty-vector-of-other-element-type-rejected-at-blob");
            }
            if reference_over_uninhabited_record(&g, r) || reference_over_uninhabited_record(&g, r2) || reference_over_uninhabited_record(&g, r3) {
                return Some("roundtrip:decode-at-type-fails:reference-type-over-uninhabited-record");
            }
            None
        };
        for k in 0..3 {
            let v = match vg.gen(&mut e, r, 5) {
                Some(v) => v,
                None => return Outcome::Skip("uninhabited-subtype"),
            };
            // two encoders
            let bytes1 = encode_message(&g, &[r], &[v.clone()], &gen_layout(&mut e));
            let bytes2 = match guard(|| IDLArgs { args: vec![to_idl(&g, r, &v, &ById)] }.to_bytes_with_types(&cenv, &[ct.clone()])) {
                Ok(Ok(b)) => b,
                Ok(Err(err)) => return Outcome::Fail(Failure::new("encode-at-subtype-fails", format!("{err:?}\n{}", describe(&v)))),
                Err(p) => return Outcome::Fail(Failure::new(format!("encode:{}", p.sig()), p.message)),
            };
            let mut decoded_at_t2: Option<RVal> = None;
            for (which, bytes) in [("harness-encoder", &bytes1), ("candid-encoder", &bytes2)] {
                let got = match guard(|| IDLArgs::from_bytes_with_types(bytes, &cenv, &[ct2.clone()])) {
                    Ok(r) => r,
                    Err(p) => return Outcome::Fail(Failure::new(format!("decode:{}", p.sig()), format!("{}\n{}", p.message, describe(&v)))),
                };
                match got {
                    Err(err) => {
                        let sig = known_region(&v).unwrap_or("accepted-subtype-but-decode-fails");
                        return Outcome::Fail(Failure::new(
                            sig,
                            format!("checker accepts t <: t' but decoding ({which}) at t' fails: {}\nbytes {}\n{}", format!("{err:?}").lines().last().unwrap_or(""), hex::encode(bytes), describe(&v)),
                        ));
                    }
                    Ok(a) => {
                        let w = a.args.first().and_then(from_idl);
                        match w {
                            Some(w) if inhabits(&g, &w, r2) => decoded_at_t2 = Some(w),
                            other => {
                                return Outcome::Fail(Failure::new(
                                    "decoded-value-does-not-inhabit-supertype",
                                    format!("decoded {:?} at t'\n{}", other.map(|x| show(&x)), describe(&v)),
                                ))
                            }
                        }
                    }
                }
            }
            // chain clause
            if chain {
                if let (Ok(true), Ok(true)) = (sub(&ct2, &ct3), sub(&ct, &ct3)) {
                    ctx.class("chain");
                    let w = decoded_at_t2.clone().unwrap();
                    let direct = guard(|| IDLArgs::from_bytes_with_types(&bytes1, &cenv, &[ct3.clone()]));
                    let via = guard(|| -> Result<IDLArgs, String> {
                        let b2 = IDLArgs { args: vec![to_idl(&g, r2, &w, &ById)] }.to_bytes_with_types(&cenv, &[ct2.clone()]).map_err(|e| format!("re-encode at t': {e:?}"))?;
                        IDLArgs::from_bytes_with_types(&b2, &cenv, &[ct3.clone()]).map_err(|e| format!("decode at t'': {e:?}"))
                    });
                    match (direct, via) {
                        (Ok(Ok(d)), Ok(Ok(x))) => {
                            let (dv, xv) = (d.args.first().and_then(from_idl), x.args.first().and_then(from_idl));
                            match (dv, xv) {
                                (Some(dv), Some(xv)) if related(&dv, &xv) => {}
                                (dv, xv) => {
                                    return Outcome::Fail(Failure::new(
                                        "chain:results-not-related",
                                        format!("direct {:?} vs via t' {:?}\n{}", dv.map(|x| show(&x)), xv.map(|x| show(&x)), describe(&v)),
                                    ))
                                }
                            }
                        }
                        (d, x) => {
                            let sig = known_region(&v).unwrap_or("chain:decode-fails");
                            return Outcome::Fail(Failure::new(
                                sig,
                                format!("direct: {:?}\nvia: {:?}\n{}", d.map(|r| r.map(|a| a.to_string()).map_err(|e| e.to_string())).map_err(|p| p.message), x.map(|r| r.map(|a| a.to_string())).map_err(|p| p.message), describe(&v)),
                            ));
                        }
                    }
                }
            }
            if k == 0 {
                if t != t2 && matches!(v, RVal::Opt(Some(_)) | RVal::Vec(_) | RVal::Record(_) | RVal::Variant(..) | RVal::Func(..) | RVal::Service(_)) {
                    let key = format!("{}|{}|{}|{}", emit_env(&env), emit_ty(&t), emit_ty(&t2), show(&v));
                    ctx.nontrivial(digest_of(key.as_bytes()));
                }
                ctx.sample(|| describe(&v));
            }
        }
        Outcome::Pass
    }
}

fn native_case(e: &mut Ent, ctx: &mut Ctx) -> Outcome {
    let reg = registry();
    // draw pairs until the checker accepts one (related families are common: options, reserved, nat/int, vectors of them)
    let mut pair = None;
    for _ in 0..12 {
        let i = e.below(reg.len());
        let j = e.below(reg.len());
        if i != j && native_accepts(i, j) {
            pair = Some((i, j));
            break;
        }
    }
    let (i, j) = match pair {
        Some(p) => p,
        None => return Outcome::Skip("checker-rejects-native-pairs-drawn"),
    };
    let (x, y) = (reg[i].as_ref(), reg[j].as_ref());
    let enc = match x.gen_encode(e, 3, Api::Macros) {
        Ok(Ok(enc)) => enc,
        _ => return Outcome::Skip("encode-failed"),
    };
    ctx.class("native-pair");
    let wrapped_in_option = y.tags().contains(&"opt");
    ctx.class(if wrapped_in_option { "native-supertype-is-option" } else { "native-supertype-not-option" });
    match y.decode(&enc.bytes, Api::Macros, None) {
        Err(p) => Outcome::Fail(Failure::new(
            format!("native:{}", p.sig()),
            format!("Decode!({} message, {}) panicked: {}", x.name(), y.name(), p.message),
        )),
        Ok(Ok(_)) => {
            if !enc.is_default {
                let mut k = enc.bytes.clone();
                k.extend_from_slice(y.name().as_bytes());
                ctx.nontrivial(digest_of(&k));
            }
            ctx.sample(|| format!("{} value {} decodes at {}", x.name(), show(&enc.wire), y.name()));
            Outcome::Pass
        }
        Ok(Err(err)) => {
            if y.tags().contains(&"host128") {
                return Outcome::Skip("host-limit-128-bit");
            }
            if y.tags().contains(&"array") {
                // the length of a fixed-size array is a host-side constraint, not part of the Candid type
                return Outcome::Skip("host-limit-array-length");
            }
            let first = err.lines().next().unwrap_or("").to_string();
            let sig = if err.contains("expect a key-value pair") {
                "map-native-rejects-wire-record-that-is-not-exactly-a-pair".to_string()
            } else if err.contains("is not a tuple type") {
                "tuple-native-rejects-wire-record-that-is-not-a-tuple".to_string()
            } else if y.tags().contains(&"bounded") {
                return Outcome::Skip("bounded-vec-limit");
            } else {
                format!("native-accepted-subtype-but-decode-fails:{}<:{}", x.name(), y.name())
            };
            Outcome::Fail(Failure::new(
                sig,
                format!("checker accepts {} <: {} but Decode! fails: {first} ... {}\nvalue {}\nbytes {}", x.name(), y.name(), err.lines().last().unwrap_or(""), show(&enc.wire), hex::encode(&enc.bytes)),
            ))
        }
    }
}
