//! C02 Decoding at an expected type is exactly the specification's coercion.
//! Differential: candid's untyped decoder vs refmodel (rwire + rcoerce).

use crate::engine::panics::guard;
use crate::engine::{digest_of, Check, Ctx, Failure, Outcome, Tier};
use crate::gen::types::{gen_env, gen_ty, TypeCfg};
use crate::gen::upgrade::{step, Dir};
use crate::gen::values::ValGen;
use crate::gen::Ent;
use crate::refmodel::rcoerce::{coerce_seq, Trace};
use crate::refmodel::ridl::from_idl;
use crate::refmodel::rtype::{self, emit_env, emit_ty, Builder, Env, Graph, Node, Prim, TId, Ty};
use crate::refmodel::rval::{show, RVal};
use crate::refmodel::rwire::{self, decode_message, encode_message, Layout, WErr};
use candid::types::{Type, TypeEnv};
use candid::IDLArgs;

pub struct C02;

pub struct Case {
    pub env: Env,
    pub wire_tys: Vec<Ty>,
    pub wire_vals: Vec<RVal>,
    pub layout: Layout,
    pub bytes: Vec<u8>,
    pub mutated: Option<&'static str>,
    pub exp_tys: Vec<Ty>,
    pub relation: &'static str,
}

impl Case {
    pub fn describe(&self) -> String {
        format!(
            "env: {}wire: ({})  values: ({})  layout: {:?}  mutation: {:?}\nexpected ({}): ({})\nbytes: {}",
            if self.env.defs.is_empty() { "-\n".to_string() } else { emit_env(&self.env) },
            self.wire_tys.iter().map(emit_ty).collect::<Vec<_>>().join(", "),
            self.wire_vals.iter().map(show).collect::<Vec<_>>().join(", "),
            self.layout,
            self.mutated,
            self.relation,
            self.exp_tys.iter().map(emit_ty).collect::<Vec<_>>().join(", "),
            hex::encode(&self.bytes)
        )
    }
}

pub fn gen_layout(e: &mut Ent) -> Layout {
    if e.ratio(1, 2) {
        return Layout::default();
    }
    Layout {
        reverse: e.bool(),
        duplicate: e.ratio(1, 4),
        unused: if e.ratio(1, 4) { e.range(1, 3) } else { 0 },
        pad_numbers: if e.ratio(1, 5) { e.range(1, 12) } else { 0 },
    }
}

pub fn mutate_bytes(e: &mut Ent, b: &mut Vec<u8>) -> &'static str {
    if b.is_empty() {
        return "none";
    }
    match e.below(7) {
        0 => {
            let i = e.below(b.len());
            b[i] ^= 1 << e.below(8);
            "bit-flip"
        }
        1 => {
            let i = e.below(b.len());
            b[i] = e.u8();
            "byte-set"
        }
        2 => {
            let i = e.below(b.len() + 1);
            b.insert(i, e.u8());
            "byte-insert"
        }
        3 => {
            let i = e.below(b.len());
            b.remove(i);
            "byte-delete"
        }
        4 => {
            let n = e.below(b.len());
            b.truncate(n);
            "truncate"
        }
        5 => {
            let n = e.range(1, 4);
            for _ in 0..n {
                b.push(e.u8());
            }
            "extend"
        }
        _ => {
            // value-area mutation: set a byte in the last third
            let lo = b.len() * 2 / 3;
            let i = lo + e.below(b.len() - lo);
            b[i] = *e.pick(&[0u8, 1, 2, 0x7f, 0x80, 0xff]);
            "value-byte-set"
        }
    }
}

/// Generates a whole case. `cfg.odd_labels` etc. decide the label pools.
pub fn gen_case(e: &mut Ent, cfg: &TypeCfg, allow_mutation: bool) -> Option<Case> {
    let (env, sc) = gen_env(e, cfg);
    if cfg.refs && !env.defs.is_empty() && e.ratio(1, 8) {
        return gen_primed_refs(e, env, sc, cfg);
    }
    let nargs = match e.below(6) {
        0 => 0,
        1 | 2 | 3 => 1,
        4 => 2,
        _ => 3,
    };
    let wire_tys: Vec<Ty> = (0..nargs).map(|_| gen_ty(e, &sc, cfg.max_depth, cfg)).collect();
    let mut b = Builder::new(&env);
    let mut roots = vec![];
    for t in &wire_tys {
        roots.push(b.ty(t).ok()?);
    }
    let g = b.graph;
    let vg = ValGen::new(&g);
    let mut wire_vals = vec![];
    for r in &roots {
        wire_vals.push(vg.gen(e, *r, 5)?);
    }
    let layout = gen_layout(e);
    let mut bytes = encode_message(&g, &roots, &wire_vals, &layout);
    // expected types
    let (exp_tys, relation): (Vec<Ty>, &'static str) = match e.below(8) {
        0 => (wire_tys.clone(), "identical"),
        1 | 2 | 3 => {
            let mut ts = wire_tys.clone();
            let steps = e.range(1, 4);
            for _ in 0..steps {
                if ts.is_empty() {
                    break;
                }
                let i = e.below(ts.len());
                ts[i] = step(e, &env, &sc, &ts[i], Dir::Super, cfg, 0);
            }
            // argument list edits in the supertype direction
            if e.ratio(1, 4) && !ts.is_empty() {
                ts.pop();
            }
            if e.ratio(1, 4) {
                ts.push(match e.below(3) {
                    0 => Ty::Prim(Prim::Null),
                    1 => Ty::Prim(Prim::Reserved),
                    _ => Ty::opt(gen_ty(e, &sc, 1, cfg)),
                });
            }
            (ts, "supertype-steps")
        }
        4 => {
            let mut ts = wire_tys.clone();
            let steps = e.range(1, 3);
            for _ in 0..steps {
                if ts.is_empty() {
                    break;
                }
                let i = e.below(ts.len());
                let d = *e.pick(&[Dir::Sub, Dir::Unrelated, Dir::Super]);
                ts[i] = step(e, &env, &sc, &ts[i], d, cfg, 0);
            }
            if e.ratio(1, 5) {
                ts.push(gen_ty(e, &sc, 1, cfg));
            }
            (ts, "mixed-steps")
        }
        5 => {
            let mut ts = wire_tys.clone();
            if !ts.is_empty() {
                let i = e.below(ts.len());
                ts[i] = step(e, &env, &sc, &ts[i], Dir::Sub, cfg, 0);
            }
            (ts, "subtype-step")
        }
        6 => {
            // wrap in options at several places (back-tracking)
            let ts = wire_tys
                .iter()
                .map(|t| {
                    let d = *e.pick(&[Dir::Unrelated, Dir::Sub, Dir::Super]);
                    let inner = step(e, &env, &sc, t, d, cfg, 0);
                    Ty::opt(inner)
                })
                .collect();
            (ts, "opt-wrapped-neighbour")
        }
        _ => {
            let n = e.range(0, 3);
            ((0..n).map(|_| gen_ty(e, &sc, cfg.max_depth, cfg)).collect(), "fresh")
        }
    };
    let mut mutated = None;
    if allow_mutation && e.ratio(1, 4) {
        mutated = Some(mutate_bytes(e, &mut bytes));
    }
    Some(Case {
        env,
        wire_tys,
        wire_vals,
        layout,
        bytes,
        mutated,
        exp_tys,
        relation,
    })
}

/// Several references over one (possibly mutually recursive) environment, read at
/// optional references over a copy of the environment in which one definition is
/// edited: each argument needs a subtype check between the two families of
/// definitions, some of them fail below `opt` and are backed out of, and later
/// ones must not see anything the failed ones assumed.
fn gen_primed_refs(e: &mut Ent, mut env: Env, sc: crate::gen::types::Scope, cfg: &TypeCfg) -> Option<Case> {
    use crate::checks::c05::prime;
    use crate::refmodel::rtype::Lab;
    let names: Vec<String> = env.defs.iter().map(|d| d.0.clone()).collect();
    let mut copies: Vec<(String, Ty)> = env.defs.iter().map(|(n, t)| (format!("{n}_new"), prime(t, &names))).collect();
    let k = e.below(copies.len());
    let d = *e.pick(&[Dir::Unrelated, Dir::Unrelated, Dir::Super, Dir::Sub]);
    let edited = step(e, &env, &sc, &copies[k].1, d, cfg, 0);
    if std::mem::discriminant(&edited) == std::mem::discriminant(&copies[k].1) && !matches!(edited, Ty::Var(_)) {
        copies[k].1 = edited;
    }
    let wire_env = env.clone();
    env.defs.extend(copies);
    let n = e.range(2, 4);
    let mut refs: Vec<Ty> = vec![];
    for _ in 0..n {
        let v = Ty::Var(names[e.below(names.len())].clone());
        let f = match e.below(4) {
            0 => Ty::Func { args: vec![v], rets: vec![], modes: vec![] },
            1 => Ty::Func { args: vec![], rets: vec![Ty::vec(v)], modes: vec![] },
            _ => Ty::Func { args: vec![], rets: vec![v], modes: vec![] },
        };
        refs.push(if e.ratio(1, 5) { Ty::Service(vec![("m".into(), f)]) } else { f });
    }
    let as_record = e.bool();
    let wire_tys: Vec<Ty> = if as_record {
        vec![Ty::Record(refs.iter().enumerate().map(|(i, t)| (Lab::Id(i as u32), t.clone())).collect())]
    } else {
        refs.clone()
    };
    let exp_refs: Vec<Ty> = refs
        .iter()
        .map(|t| {
            let p = prime(t, &names);
            if e.ratio(5, 6) {
                Ty::opt(p)
            } else {
                p
            }
        })
        .collect();
    let exp_tys: Vec<Ty> = if as_record {
        vec![Ty::Record(exp_refs.iter().enumerate().map(|(i, t)| (Lab::Id(i as u32), t.clone())).collect())]
    } else {
        exp_refs
    };
    let mut b = Builder::new(&wire_env);
    let mut roots = vec![];
    for t in &wire_tys {
        roots.push(b.ty(t).ok()?);
    }
    let g = b.graph;
    let vg = ValGen::new(&g);
    let mut wire_vals = vec![];
    for r in &roots {
        wire_vals.push(vg.gen(e, *r, 5)?);
    }
    let layout = gen_layout(e);
    let bytes = encode_message(&g, &roots, &wire_vals, &layout);
    Some(Case { env, wire_tys, wire_vals, layout, bytes, mutated: None, exp_tys, relation: "primed-references" })
}

#[derive(Debug)]
pub enum RefOutcome {
    Accept(Vec<RVal>, Trace),
    Reject(String),
    Unspecified(&'static str),
}

/// The decoder replaces records without a finite value (through record fields
/// only) by `empty` in the wire table (documented in binary_parser/type_env).
pub fn normalize_uninhabited_records(g: &mut Graph, table_len: usize) {
    let n = table_len;
    let mut ok = vec![false; n];
    loop {
        let mut changed = false;
        for i in 0..n {
            if ok[i] {
                continue;
            }
            let v = match &g.nodes[i] {
                Node::Record(fs) => fs.iter().all(|(_, t)| *t >= n || !matches!(g.nodes[*t], Node::Record(_)) || ok[*t]),
                _ => true,
            };
            if v {
                ok[i] = true;
                changed = true;
            }
        }
        if !changed {
            break;
        }
    }
    for i in 0..n {
        if !ok[i] {
            g.nodes[i] = Node::Prim(Prim::Empty);
        }
    }
}

pub fn reference(bytes: &[u8], env: &Env, exp: &[Ty]) -> RefOutcome {
    reference_with(bytes, env, exp, false)
}

pub fn reference_with(bytes: &[u8], env: &Env, exp: &[Ty], strict_blob: bool) -> RefOutcome {
    let d = match decode_message(bytes) {
        Ok(d) => d,
        Err(WErr::Malformed(r)) => return RefOutcome::Reject(format!("malformed:{r}")),
        Err(WErr::Limit(r)) => return RefOutcome::Reject(format!("limit:{r}")),
        Err(WErr::Unspecified(r)) => return RefOutcome::Unspecified(r),
    };
    if d.nonminimal_structural {
        return RefOutcome::Unspecified("non-minimal-structural-leb128");
    }
    if d.header.table.iter().any(|e| matches!(e, rwire::Entry::Func{modes, ..} if modes.len() > 1)) {
        return RefOutcome::Unspecified("several-annotations-in-wire-table");
    }
    let table_len = d.header.table.len();
    let run = |normalize: bool| -> Result<Option<(Vec<RVal>, Trace)>, ()> {
        let mut g = d.types.graph.clone();
        if normalize {
            normalize_uninhabited_records(&mut g, table_len);
        }
        let mut b = Builder::with_graph(env, g);
        let mut roots: Vec<TId> = vec![];
        for t in exp {
            roots.push(b.ty(t).map_err(|_| ())?);
        }
        let mut tr = Trace::default();
        tr.strict_blob = strict_blob;
        let r = coerce_seq(&b.graph, &d.values, &d.types.args, &roots, &mut tr);
        if tr.unproductive {
            return Err(());
        }
        Ok(r.map(|v| (v, tr)))
    };
    let a = match run(true) {
        Ok(a) => a,
        Err(()) => return RefOutcome::Unspecified("expected-type-ill-formed-or-unproductive-opt-cycle"),
    };
    let b = run(false).unwrap_or(None);
    match (a, b) {
        (Some((v1, tr)), Some((v2, _))) if v1 == v2 => RefOutcome::Accept(v1, tr),
        (None, None) => RefOutcome::Reject("coercion".into()),
        _ => RefOutcome::Unspecified("uninhabited-record-normalisation-matters"),
    }
}

pub fn compare(
    reference: &RefOutcome,
    got: &Result<Result<IDLArgs, String>, crate::engine::panics::PanicInfo>,
    entry: &str,
) -> Result<(), Failure> {
    let got = match got {
        Err(p) => {
            return Err(Failure::new(
                format!("{entry}:{}", p.sig()),
                format!("{entry} panicked at {}: {}", p.location, p.message),
            ))
        }
        Ok(r) => r,
    };
    match (reference, got) {
        (RefOutcome::Unspecified(_), _) => Ok(()),
        (RefOutcome::Reject(_), Err(_)) => Ok(()),
        (RefOutcome::Reject(why), Ok(a)) => Err(Failure::new(
            format!("{entry}:accepted-but-reference-rejects:{}", why.split(':').next().unwrap_or("")),
            format!("{entry} returned {a} but the reference rejects the message ({why})"),
        )),
        (RefOutcome::Accept(vs, _), Err(e)) => Err(Failure::new(
            format!("{entry}:rejected-but-reference-accepts"),
            format!(
                "{entry} failed with: {}\nbut the reference accepts with values ({})",
                e.lines().take(6).collect::<Vec<_>>().join(" | "),
                vs.iter().map(show).collect::<Vec<_>>().join(", ")
            ),
        )),
        (RefOutcome::Accept(vs, _), Ok(a)) => {
            let got: Option<Vec<RVal>> = a.args.iter().map(from_idl).collect();
            match got {
                Some(g) if g == *vs => Ok(()),
                Some(g)
                    if g.iter().map(strip_underscore).collect::<Vec<_>>()
                        == vs.iter().map(strip_underscore).collect::<Vec<_>>() =>
                {
                    Err(Failure::new(
                        "untyped-decode:record-field-named-underscore-dropped",
                        format!("{entry} returned {a}\nreference values: ({}) — the only difference is that record fields with the id of the name \"_\" are missing", vs.iter().map(show).collect::<Vec<_>>().join(", ")),
                    ))
                }
                _ => Err(Failure::new(
                    format!("{entry}:value-mismatch"),
                    format!(
                        "{entry} returned {a}\nreference values: ({})",
                        vs.iter().map(show).collect::<Vec<_>>().join(", ")
                    ),
                )),
            }
        }
    }
}

pub fn run_case(c: &Case, ctx: &mut Ctx) -> Outcome {
    let cenv: TypeEnv = rtype::env_to_candid(&c.env);
    let ctys: Vec<Type> = c.exp_tys.iter().map(rtype::to_candid).collect();
    let r = reference(&c.bytes, &c.env, &c.exp_tys);
    ctx.class(c.relation);
    if let Some(m) = c.mutated {
        ctx.class("mutated");
        ctx.class(m);
    }
    match &r {
        RefOutcome::Unspecified(why) => {
            ctx.sample(|| format!("[unspecified: {why}] {}", c.describe()));
            return Outcome::Skip(why);
        }
        RefOutcome::Reject(why) => {
            ctx.class("reference-rejects");
            if why.starts_with("malformed") {
                ctx.class("rejects-malformed");
            } else if why.starts_with("limit") {
                ctx.class("rejects-limit");
            } else {
                ctx.class("rejects-coercion");
            }
        }
        RefOutcome::Accept(_, tr) => {
            ctx.class("reference-accepts");
            for f in &tr.flags {
                ctx.class(f);
            }
        }
    }
    // entry point 1: from_bytes_with_types
    let got = guard(|| IDLArgs::from_bytes_with_types(&c.bytes, &cenv, &ctys).map_err(|e| format!("{e:?}")));
    if let Err(f) = compare(&r, &got, "from_bytes_with_types") {
        ctx.sample(|| c.describe());
        // classify the one known deviation precisely: the implementation agrees
        // with the relation in which an (empty) vector of another element type
        // does not coerce to `vec nat8`
        let strict = reference_with(&c.bytes, &c.env, &c.exp_tys, true);
        if compare(&strict, &got, "from_bytes_with_types").is_ok() {
            return Outcome::Fail(Failure::new(
                "untyped-decode:empty-vector-of-other-element-type-rejected-at-blob",
                format!("{}\n{}", f.msg, c.describe()),
            ));
        }
        return Outcome::Fail(Failure::new(f.sig, format!("{}\n{}", f.msg, c.describe())));
    }
    // entry point 2: get_value_with_type one by one, then done()
    let got2 = guard(|| -> Result<IDLArgs, String> {
        let mut de = candid::de::IDLDeserialize::new(&c.bytes).map_err(|e| format!("{e:?}"))?;
        let mut args = vec![];
        for t in &ctys {
            args.push(de.get_value_with_type(&cenv, t).map_err(|e| format!("{e:?}"))?);
        }
        de.done().map_err(|e| format!("{e:?}"))?;
        Ok(IDLArgs { args })
    });
    if let Err(f) = compare(&r, &got2, "get_value_with_type+done") {
        return Outcome::Fail(Failure::new(f.sig, format!("{}\n{}", f.msg, c.describe())));
    }
    // entry point 3: no expected types: the wire values themselves
    let r3 = match decode_message(&c.bytes) {
        Ok(d) if d.nonminimal_structural => RefOutcome::Unspecified("non-minimal-structural-leb128"),
        Ok(d) => {
            if d.header.table.iter().any(|e| matches!(e, rwire::Entry::Func{modes, ..} if modes.len() > 1))
                || d.values.iter().any(contains_future)
            {
                RefOutcome::Unspecified("future-or-annotations")
            } else {
                RefOutcome::Accept(d.values, Trace::default())
            }
        }
        Err(WErr::Malformed(r)) => RefOutcome::Reject(format!("malformed:{r}")),
        Err(WErr::Limit(r)) => RefOutcome::Reject(format!("limit:{r}")),
        Err(WErr::Unspecified(r)) => RefOutcome::Unspecified(r),
    };
    let got3 = guard(|| IDLArgs::from_bytes(&c.bytes).map_err(|e| format!("{e:?}")));
    if let Err(f) = compare(&r3, &got3, "from_bytes") {
        return Outcome::Fail(Failure::new(f.sig, format!("{}\n{}", f.msg, c.describe())));
    }
    // non-trivial: value decoding was reached and the expected type differs, or a value-level rejection
    let nontrivial = match &r {
        RefOutcome::Accept(..) => c.relation != "identical" || c.mutated.is_some(),
        RefOutcome::Reject(why) => !why.starts_with("malformed:magic") && !why.starts_with("malformed:truncated-leb"),
        _ => false,
    };
    if nontrivial {
        let mut k = c.bytes.clone();
        k.extend(c.exp_tys.iter().map(emit_ty).collect::<Vec<_>>().join(",").as_bytes());
        ctx.nontrivial(digest_of(&k));
    }
    ctx.sample(|| {
        format!(
            "{}\nreference: {}",
            c.describe(),
            match &r {
                RefOutcome::Accept(vs, _) => format!("accept ({})", vs.iter().map(show).collect::<Vec<_>>().join(", ")),
                RefOutcome::Reject(w) => format!("reject ({w})"),
                RefOutcome::Unspecified(w) => format!("unspecified ({w})"),
            }
        )
    });
    Outcome::Pass
}

/// Value with every record field whose id is hash("_") = 95 removed.
fn strip_underscore(v: &RVal) -> RVal {
    match v {
        RVal::Opt(Some(v)) => RVal::some(strip_underscore(v)),
        RVal::Vec(vs) => RVal::Vec(vs.iter().map(strip_underscore).collect()),
        RVal::Record(fs) => RVal::Record(fs.iter().filter(|(i, _)| *i != 95).map(|(i, v)| (*i, strip_underscore(v))).collect()),
        RVal::Variant(i, v) => RVal::Variant(*i, Box::new(strip_underscore(v))),
        other => other.clone(),
    }
}

fn contains_future(v: &RVal) -> bool {
    match v {
        RVal::Future => true,
        RVal::Opt(Some(v)) => contains_future(v),
        RVal::Vec(vs) => vs.iter().any(contains_future),
        RVal::Record(fs) => fs.iter().any(|(_, v)| contains_future(v)),
        RVal::Variant(_, v) => contains_future(v),
        _ => false,
    }
}

impl Check for C02 {
    fn id(&self) -> &'static str {
        "C02"
    }
    fn rule(&self) -> &'static str {
        "A case is (message bytes, expected environment, expected type sequence). Messages are encodings, by the harness's own encoder (random table order, duplicate/unused entries, padded numbers), of generated inhabitants of generated possibly-recursive wire types; a quarter are then byte-mutated. Expected types are the wire types pushed through 1-4 upgrade steps (supertype, subtype, unrelated, opt-wrapping) at random positions, with arguments dropped/added, or fresh random types. Oracle: an independent parser for the binary grammar plus the coercion relation of spec/Candid.md as a recursive function, with subtyping for references computed as a greatest fixed point; accept => same values (labels by id, floats by bits), reject => error, for from_bytes_with_types, get_value_with_type+done and from_bytes. Non-trivial = the reference got past the header and (the expected type differs from the wire type, or the message was mutated, or the rejection is value-level); distinct = distinct (bytes, expected types)."
    }
    fn assumptions(&self) -> Vec<String> {
        vec![
            "Skipped as unspecified (counted): opaque references, non-minimal LEB128 in structural positions, function types with several annotations in wire tables, future values announcing references, cases where the decoder's uninhabited-record normalisation changes the answer, vectors longer than 2e6, nesting deeper than 400".into(),
            "Documented limits are part of the reference: type table <= 10 000 entries, principals <= 29 bytes".into(),
        ]
    }
    fn max_len(&self) -> usize {
        1024
    }
    fn cases(&self, tier: Tier) -> u64 {
        match tier {
            Tier::Quick => 1_200_000,
            Tier::Thorough => 40_000_000,
        }
    }
    /// Direct cases: JSON {"env": Env, "expected": [Ty], "bytes": hex}
    fn direct_case(&self, data: &[u8], ctx: &mut Ctx) -> Outcome {
        #[derive(serde::Deserialize)]
        struct D {
            env: Env,
            expected: Vec<Ty>,
            bytes: String,
        }
        let d: D = match serde_json::from_slice(data) {
            Ok(d) => d,
            Err(_) => return Outcome::Skip("bad-direct-case"),
        };
        let c = Case {
            env: d.env,
            wire_tys: vec![],
            wire_vals: vec![],
            layout: Layout::default(),
            bytes: hex::decode(d.bytes).unwrap_or_default(),
            mutated: None,
            exp_tys: d.expected,
            relation: "direct",
        };
        run_case(&c, ctx)
    }
    fn one_case(&self, data: &[u8], ctx: &mut Ctx) -> Outcome {
        let mut e = Ent::new(data);
        let mut cfg = TypeCfg::default();
        cfg.odd_labels = e.ratio(1, 4);
        if cfg.odd_labels {
            ctx.class("odd-labels");
        }
        let c = match gen_case(&mut e, &cfg, true) {
            Some(c) => c,
            None => return Outcome::Skip("uninhabited-wire-type"),
        };
        run_case(&c, ctx)
    }
}
