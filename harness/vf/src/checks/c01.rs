//! C01 Native encode/decode round-trip is the identity, whatever ran before.

use crate::corpus::registry::{registry, Api, TypeOps};
use crate::engine::{digest_of, Check, Ctx, Failure, Outcome, Tier};
use crate::gen::Ent;
use crate::refmodel::rval::{show, RVal};
use candid::de::IDLDeserialize;
use candid::ser::IDLBuilder;
use candid::IDLArgs;

pub struct C01;

#[derive(Debug, Clone, PartialEq)]
pub struct RoundTrip {
    pub bytes: Result<Vec<u8>, String>,
    pub decoded: Option<Result<RVal, String>>,
    pub expected: RVal,
    pub is_default: bool,
}

/// Generate a value from `entropy`, encode, decode, report.
pub fn roundtrip(ops: &dyn TypeOps, entropy: &[u8], api: Api) -> Result<RoundTrip, Failure> {
    let mut e = Ent::new(entropy);
    let enc = ops.gen_encode(&mut e, 3, api).map_err(|p| {
        Failure::new(
            format!("encode:{}", p.sig()),
            format!("encoding a {} panicked at {}: {}", ops.name(), p.location, p.message),
        )
    })?;
    // regenerate the abstract value for reporting when encoding failed
    let enc = match enc {
        Ok(x) => x,
        Err(err) => {
            return Ok(RoundTrip {
                bytes: Err(err),
                decoded: None,
                expected: RVal::Null,
                is_default: true,
            })
        }
    };
    let dec = ops.decode(&enc.bytes, api, None).map_err(|p| {
        Failure::new(
            format!("decode:{}", p.sig()),
            format!("decoding {} at {} panicked at {}: {}", hex::encode(&enc.bytes), ops.name(), p.location, p.message),
        )
    })?;
    Ok(RoundTrip {
        bytes: Ok(enc.bytes),
        decoded: Some(dec.map(|d| d.canon)),
        expected: enc.canon,
        is_default: enc.is_default,
    })
}

fn history_step(e: &mut Ent, reg: &[Box<dyn TypeOps>], log: &mut Vec<String>) {
    let j = e.below(reg.len());
    match e.below(8) {
        0 => {
            let _ = crate::engine::panics::guard(|| reg[j].ty());
            log.push(format!("ty::<{}>()", reg[j].name()));
        }
        1 => {
            let _ = reg[j].gen_encode(e, 2, Api::Macros);
            log.push(format!("encode a {}", reg[j].name()));
        }
        2 => {
            // decode a message of T_j at T_k (mostly mismatching: failing decodes are part of histories)
            let k = if e.bool() { j } else { e.below(reg.len()) };
            if let Ok(Ok(enc)) = reg[j].gen_encode(e, 2, Api::Macros) {
                let r = reg[k].decode(&enc.bytes, Api::Macros, None);
                log.push(format!(
                    "decode a {} message at {} -> {}",
                    reg[j].name(),
                    reg[k].name(),
                    match r {
                        Ok(Ok(_)) => "ok",
                        Ok(Err(_)) => "err",
                        Err(_) => "panic",
                    }
                ));
            }
        }
        3 => {
            // multi-argument message mixing several types, then decoded back
            let n = e.range(2, 4);
            let idx: Vec<usize> = (0..n).map(|_| e.below(reg.len())).collect();
            let r = crate::engine::panics::guard(|| {
                let mut b = IDLBuilder::new();
                for i in &idx {
                    if reg[*i].gen_into_builder(e, 2, &mut b).is_err() {
                        return;
                    }
                }
                if let Ok(bytes) = b.serialize_to_vec() {
                    if let Ok(mut de) = IDLDeserialize::new(&bytes) {
                        for i in &idx {
                            if reg[*i].decode_next(&mut de).is_err() {
                                break;
                            }
                        }
                        let _ = de.done();
                    }
                }
            });
            log.push(format!(
                "multi-arg message ({}){}",
                idx.iter().map(|i| reg[*i].name()).collect::<Vec<_>>().join(", "),
                if r.is_err() { " -> panic" } else { "" }
            ));
        }
        4 => {
            if let Ok(Ok(enc)) = reg[j].gen_encode(e, 2, Api::Macros) {
                let _ = crate::engine::panics::guard(|| IDLArgs::from_bytes(&enc.bytes).map(|_| ()));
                log.push(format!("untyped decode of a {} message", reg[j].name()));
            }
        }
        5 => {
            let _ = IDLBuilder::new();
            log.push("IDLBuilder::new() unused".into());
        }
        6 => {
            let _ = crate::engine::panics::guard(|| reg[j].container_add());
            log.push(format!("TypeContainer::add::<{}>()", reg[j].name()));
        }
        _ => {
            // builder created, types derived, never serialized
            let _ = crate::engine::panics::guard(|| {
                let mut b = IDLBuilder::new();
                let _ = reg[j].gen_into_builder(e, 1, &mut b);
            });
            log.push(format!("abandoned builder with a {}", reg[j].name()));
        }
    }
}

impl Check for C01 {
    fn id(&self) -> &'static str {
        "C01"
    }
    fn rule(&self) -> &'static str {
        "A case is (corpus type T, value v : T, history, API). The corpus has ~230 monomorphic Rust types: primitives, 128-bit and big numbers, text, principal, options, every sequence/set container over primitive, big-number and composite elements, fixed arrays, BTreeMap/HashMap over ten key and fourteen value types (text-key and big-number fast paths and their nestings), tuples up to 16, wrappers (Box/Rc/Arc/Cell/RefCell/Cow/Reverse), Result/MotokoResult, BoundedVec with several limit triples, derived structs/enums/newtypes/generics with renames and raw identifiers, recursive and mutually recursive types, function/service references. A history is 0-12 earlier operations on the same thread (type derivation, encodes, matching and mismatching decodes, multi-argument messages, untyped decodes, unused/abandoned builders, TypeContainer exports). Oracle: decoding the encoding succeeds with no unread input and gives a value with the same abstract value (floats by bits, unordered containers as multisets), through Encode!/Decode!, encode_args/decode_args and IDLBuilder/IDLDeserialize; bytes and result equal those computed on a freshly spawned thread performing only the round-trip. Non-trivial = the value is not the type's default; distinct = distinct (type, value)."
    }
    fn assumptions(&self) -> Vec<String> {
        vec![
            "PhantomData, Empty, pre-epoch SystemTime and non-UTF-8 paths are documented to fail encoding and are outside the corpus".into(),
            "BoundedVec values are generated within their limits (round-trip domain); out-of-limit vectors are C08's subject".into(),
        ]
    }
    fn max_len(&self) -> usize {
        1024
    }
    fn cases(&self, tier: Tier) -> u64 {
        match tier {
            Tier::Quick => 200_000,
            Tier::Thorough => 8_000_000,
        }
    }
    fn one_case(&self, data: &[u8], ctx: &mut Ctx) -> Outcome {
        let reg = registry();
        let mut e = Ent::new(data);
        let i = e.below(reg.len());
        let ops = reg[i].as_ref();
        let api = *e.pick(&[Api::Macros, Api::Macros, Api::Args, Api::Builder]);
        let hist_len = if e.bool() { 0 } else { e.range(1, 12) };
        let final_len = e.range(0, 200);
        let final_entropy = e.bytes(final_len);
        let mut log = vec![];
        for _ in 0..hist_len {
            history_step(&mut e, reg, &mut log);
        }
        for t in ops.tags() {
            ctx.class(t);
        }
        if hist_len > 0 {
            ctx.class("history>0");
        }
        ctx.class(match api {
            Api::Macros => "api-macros",
            Api::Args => "api-args",
            Api::Builder => "api-builder",
        });
        let here = match roundtrip(ops, &final_entropy, api) {
            Ok(r) => r,
            Err(f) => return Outcome::Fail(Failure::new(f.sig, format!("{}\nhistory: {:?}", f.msg, log))),
        };
        // fresh thread, only the final round-trip
        let fe = final_entropy.clone();
        let fresh = std::thread::Builder::new()
            .stack_size(16 << 20)
            .spawn(move || {
                let reg = registry();
                roundtrip(reg[i].as_ref(), &fe, api)
            })
            .unwrap()
            .join();
        let fresh = match fresh {
            Ok(Ok(r)) => r,
            Ok(Err(f)) => return Outcome::Fail(Failure::new(format!("fresh-thread:{}", f.sig), f.msg)),
            Err(_) => return Outcome::Fail(Failure::new("fresh-thread:panic", "fresh thread panicked".to_string())),
        };
        let describe = |r: &RoundTrip| {
            format!(
                "type {} value {} api {:?}\nbytes {}\ndecoded {}\nhistory: {:?}",
                ops.name(),
                show(&r.expected),
                api,
                match &r.bytes {
                    Ok(b) => hex::encode(b),
                    Err(e) => format!("ENCODE ERROR {e}"),
                },
                match &r.decoded {
                    Some(Ok(v)) => show(v),
                    Some(Err(e)) => format!("DECODE ERROR {}", e.lines().take(8).collect::<Vec<_>>().join(" | ")),
                    None => "-".into(),
                },
                log
            )
        };
        if here != fresh {
            return Outcome::Fail(Failure::new(
                format!("history-dependent:{}", ops.name()),
                format!("after the history: {}\non a fresh thread: {}", describe(&here), describe(&fresh)),
            ));
        }
        match (&here.bytes, &here.decoded) {
            (Err(err), _) => {
                return Outcome::Fail(Failure::new(
                    format!("encode-fails:{}", ops.name()),
                    format!("encoding failed: {err}\n{}", describe(&here)),
                ))
            }
            (Ok(_), Some(Err(_))) => {
                return Outcome::Fail(Failure::new(format!("decode-fails:{}", ops.name()), describe(&here)));
            }
            (Ok(_), Some(Ok(v))) if *v != here.expected => {
                return Outcome::Fail(Failure::new(format!("value-differs:{}", ops.name()), describe(&here)));
            }
            _ => {}
        }
        if !here.is_default {
            let k = format!("{}|{:?}", ops.name(), here.expected);
            ctx.nontrivial(digest_of(k.as_bytes()));
        }
        ctx.sample(|| describe(&here));
        Outcome::Pass
    }
}
