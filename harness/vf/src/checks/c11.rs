//! C11 Printing a value as Candid text and parsing it back returns the same value.

use crate::checks::c10::{collect_names, NameMap};
use crate::engine::panics::guard;
use crate::engine::{digest_of, Check, Ctx, Failure, Outcome, Tier};
use crate::gen::types::{gen_env, gen_ty, TypeCfg};
use crate::gen::values::ValGen;
use crate::gen::Ent;
use crate::refmodel::ridl::{from_idl, to_idl};
use crate::refmodel::rtype::{self, emit_env, emit_ty, Builder, Ty};
use crate::refmodel::rval::{show, RVal};
use candid::types::Type;
use candid::{IDLArgs, IDLValue};
use candid_parser::{parse_idl_args, parse_idl_value};
use std::collections::BTreeMap;

pub struct C11;

/// The property quantifies over finite floats.
fn finite(v: &RVal) -> RVal {
    match v {
        RVal::Float64(b) if !f64::from_bits(*b).is_finite() => RVal::Float64(1.5f64.to_bits()),
        RVal::Float32(b) if !f32::from_bits(*b).is_finite() => RVal::Float32(2.5f32.to_bits()),
        RVal::Opt(Some(x)) => RVal::some(finite(x)),
        RVal::Vec(vs) => RVal::Vec(vs.iter().map(finite).collect()),
        RVal::Record(fs) => RVal::Record(fs.iter().map(|(i, x)| (*i, finite(x))).collect()),
        RVal::Variant(i, x) => RVal::Variant(*i, Box::new(finite(x))),
        other => other.clone(),
    }
}

fn depth(v: &RVal) -> usize {
    1 + match v {
        RVal::Opt(Some(x)) => depth(x),
        RVal::Vec(vs) => vs.iter().map(depth).max().unwrap_or(0),
        RVal::Record(fs) => fs.iter().map(|(_, x)| depth(x)).max().unwrap_or(0),
        RVal::Variant(_, x) => depth(x),
        _ => 0,
    }
}

fn interesting(v: &RVal, names: &BTreeMap<u32, String>, ctx: &mut Ctx) -> bool {
    let mut hit = false;
    fn walk(v: &RVal, names: &BTreeMap<u32, String>, ctx: &mut Ctx, hit: &mut bool) {
        let odd_name = |n: &str| !rtype::is_plain_ident(n);
        match v {
            RVal::Text(s) => {
                if s.chars().any(|c| c.is_control() || c == '"' || c == '\\' || c == '\'' || !c.is_ascii()) {
                    ctx.class("text-needs-escaping");
                    *hit = true;
                }
                if s.contains('\0') {
                    ctx.class("text-with-nul");
                }
            }
            RVal::Nat(n) => {
                if n.bits() > 10 {
                    ctx.class("number-grouped");
                    *hit = true;
                }
            }
            RVal::Int(n) => {
                if n.bits() > 10 {
                    ctx.class("number-grouped");
                    *hit = true;
                }
            }
            RVal::Nat16(_) | RVal::Nat32(_) | RVal::Nat64(_) | RVal::Int16(_) | RVal::Int32(_) | RVal::Int64(_) => {}
            RVal::Float32(_) | RVal::Float64(_) => ctx.class("float"),
            RVal::Opt(Some(x)) => walk(x, names, ctx, hit),
            RVal::Vec(vs) => {
                if vs.len() > 10 {
                    ctx.class("vector-above-10");
                    *hit = true;
                }
                for x in vs {
                    walk(x, names, ctx, hit);
                }
            }
            RVal::Record(fs) => {
                for (i, x) in fs {
                    if names.get(i).map(|n| odd_name(n)).unwrap_or(false) {
                        ctx.class("label-needs-quoting");
                        *hit = true;
                    }
                    walk(x, names, ctx, hit);
                }
            }
            RVal::Variant(i, x) => {
                if names.get(i).map(|n| odd_name(n)).unwrap_or(false) {
                    ctx.class("label-needs-quoting");
                    *hit = true;
                }
                walk(x, names, ctx, hit);
            }
            RVal::Func(_, m) => {
                if odd_name(m) {
                    ctx.class("method-name-needs-quoting");
                    *hit = true;
                }
            }
            _ => {}
        }
    }
    walk(v, names, ctx, &mut hit);
    if depth(v) > 10 {
        ctx.class("depth-above-10");
        hit = true;
    }
    hit
}

fn roundtrip(
    how: &str,
    text: &str,
    parse_args: bool,
    cenv: &candid::TypeEnv,
    ctys: &[Type],
    want: &[RVal],
) -> Result<(), Failure> {
    let parsed: Result<IDLArgs, String> = match guard(|| {
        if parse_args {
            parse_idl_args(text).map_err(|e| e.to_string())
        } else {
            parse_idl_value(text).map(|v| IDLArgs { args: vec![v] }).map_err(|e| e.to_string())
        }
    }) {
        Ok(r) => r,
        Err(p) => return Err(Failure::new(format!("{how}:parse:{}", p.sig()), format!("parser panicked: {}\ntext: {text}", p.message))),
    };
    let parsed = match parsed {
        Ok(a) => a,
        Err(err) => {
            return Err(Failure::new(
                format!("{how}:printed-text-does-not-parse"),
                format!("{err}\ntext: {text}"),
            ))
        }
    };
    let ann = match guard(|| parsed.clone().annotate_types(true, cenv, ctys)) {
        Ok(Ok(a)) => a,
        Ok(Err(err)) => {
            return Err(Failure::new(
                format!("{how}:parsed-value-does-not-annotate"),
                format!("{err}\ntext: {text}\nparsed: {parsed:?}"),
            ))
        }
        Err(p) => return Err(Failure::new(format!("{how}:annotate:{}", p.sig()), p.message)),
    };
    let got: Option<Vec<RVal>> = ann.args.iter().map(from_idl).collect();
    if got.as_deref() != Some(want) {
        return Err(Failure::new(
            format!("{how}:value-changed"),
            format!(
                "text: {text}\nparsed and annotated: ({})\noriginal:             ({})",
                got.map(|g| g.iter().map(show).collect::<Vec<_>>().join(", ")).unwrap_or_else(|| "?".into()),
                want.iter().map(show).collect::<Vec<_>>().join(", ")
            ),
        ));
    }
    Ok(())
}

impl Check for C11 {
    fn id(&self) -> &'static str {
        "C11"
    }
    fn rule(&self) -> &'static str {
        "A case is (environment, argument types, values) with 1-3 arguments; values are canonical (blobs as Blob, numbers typed, labels carrying the type's names), floats finite. Text, field/variant names and method names come from the full pools: arbitrary Unicode scalars biased to control characters, NUL, DEL, quotes, backslash, U+2028/9, combining marks, surrogate-adjacent and astral characters; every keyword of Candid and of the binding targets; numeric-looking and colliding names; numeric ids including 2^32-1. Vectors of length 0-14 (130/300 for blobs), nesting up to 14, big numbers up to 2^256. Oracle: Display and Debug of IDLArgs, and Display and Debug of each IDLValue, parse with parse_idl_args / parse_idl_value and annotate_types(true, env, types) gives back the original abstract value (labels by id, floats by bits); printing twice gives the same string. Non-trivial = the value contains text needing an escape, a label or method name needing quotes, a number above 1000, a vector above 10 elements or nesting above 10; distinct = distinct (types, value)."
    }
    fn assumptions(&self) -> Vec<String> {
        vec!["NaN and infinities are outside the property (finite floats)".into()]
    }
    fn max_len(&self) -> usize {
        1024
    }
    fn cases(&self, tier: Tier) -> u64 {
        match tier {
            Tier::Quick => 600_000,
            Tier::Thorough => 20_000_000,
        }
    }
    fn one_case(&self, data: &[u8], ctx: &mut Ctx) -> Outcome {
        let mut e = Ent::new(data);
        let mut cfg = TypeCfg::default();
        cfg.odd_labels = e.ratio(2, 3);
        cfg.empty = false;
        let (env, sc) = gen_env(&mut e, &cfg);
        let nargs = e.range(1, 3);
        let tys: Vec<Ty> = (0..nargs).map(|_| gen_ty(&mut e, &sc, cfg.max_depth, &cfg)).collect();
        let mut b = Builder::new(&env);
        let mut roots = vec![];
        for t in &tys {
            match b.ty(t) {
                Ok(r) => roots.push(r),
                Err(_) => return Outcome::Skip("ill-formed"),
            }
        }
        let g = b.graph;
        let mut vg = ValGen::new(&g);
        vg.max_vec = if e.ratio(1, 4) { 14 } else { 4 };
        let fuel = if e.ratio(1, 4) { 14 } else { 5 };
        let mut vals = vec![];
        for r in &roots {
            match vg.gen(&mut e, *r, fuel) {
                Some(v) => vals.push(finite(&v)),
                None => return Outcome::Skip("uninhabited-type"),
            }
        }
        let mut names = BTreeMap::new();
        for (_, t) in &env.defs {
            collect_names(t, &mut names);
        }
        for t in &tys {
            collect_names(t, &mut names);
        }
        let namer = NameMap(names.clone());
        let idl: Vec<IDLValue> = roots.iter().zip(&vals).map(|(r, v)| to_idl(&g, *r, v, &namer)).collect();
        let args = IDLArgs { args: idl.clone() };
        let cenv = rtype::env_to_candid(&env);
        let ctys: Vec<Type> = tys.iter().map(rtype::to_candid).collect();
        let describe = || {
            format!(
                "env:\n{}types: ({})\nvalues: ({})",
                emit_env(&env),
                tys.iter().map(emit_ty).collect::<Vec<_>>().join(", "),
                vals.iter().map(show).collect::<Vec<_>>().join(", ")
            )
        };
        let mut nontrivial = false;
        for v in &vals {
            nontrivial |= interesting(v, &names, ctx);
        }
        // printing
        let printed = guard(|| (format!("{args}"), format!("{args:?}"), format!("{args}"), format!("{args:?}")));
        let (disp, dbg, disp2, dbg2) = match printed {
            Ok(x) => x,
            Err(p) => return Outcome::Fail(Failure::new(format!("print:{}", p.sig()), format!("printing panicked: {}\n{}", p.message, describe()))),
        };
        if disp != disp2 || dbg != dbg2 {
            return Outcome::Fail(Failure::new("print:not-deterministic", describe()));
        }
        for (how, text) in [("Display(IDLArgs)", &disp), ("Debug(IDLArgs)", &dbg)] {
            if let Err(f) = roundtrip(how, text, true, &cenv, &ctys, &vals) {
                return Outcome::Fail(Failure::new(f.sig, format!("{}\n{}", f.msg, describe())));
            }
        }
        // single values
        for (i, v) in idl.iter().enumerate() {
            let texts = guard(|| (format!("{v}"), format!("{v:?}")));
            let (d, g2) = match texts {
                Ok(x) => x,
                Err(p) => return Outcome::Fail(Failure::new(format!("print:{}", p.sig()), p.message)),
            };
            for (how, text) in [("Display(IDLValue)", &d), ("Debug(IDLValue)", &g2)] {
                if let Err(f) = roundtrip(how, text, false, &cenv, &ctys[i..i + 1], &vals[i..i + 1]) {
                    return Outcome::Fail(Failure::new(f.sig, format!("{}\n{}", f.msg, describe())));
                }
            }
        }
        if nontrivial {
            ctx.nontrivial(digest_of(disp.as_bytes()));
        }
        ctx.sample(|| format!("{}\nDisplay: {disp}", describe()));
        Outcome::Pass
    }
}
