//! C17 The generated JavaScript binding denotes the same service interface.

use crate::checks::c12::{parse_and_check, sem_of_candid};
use crate::engine::panics::guard;
use crate::engine::{digest_of, Check, Ctx, Failure, Outcome, Tier};
use crate::gen::prog::{emit, gen_prog};
use crate::gen::types::TypeCfg;
use crate::gen::Ent;
use crate::jsmini::{Interp, Val};
use crate::refmodel::rsub;
use crate::refmodel::rtype::Ty;
use candid_parser::bindings::javascript;

pub struct C17;

pub const JS_DEF_NAMES: &[&str] = &[
    "A", "B", "C", "List", "Tree", "node", "default", "class", "function", "new", "return", "IDL", "default_", "class_", "await", "yield",
    "let", "static", "enum", "eval", "arguments", "of", "async", "undefined", "NaN", "constructor", "toString", "init", "idlFactory",
    "export", "const", "this", "typeof", "var", "void", "with", "package", "interface", "implements", "private", "public", "protected",
    "super", "switch", "delete", "in", "instanceof", "int_", "float", "double", "byte", "char", "long", "short", "boolean", "abstract",
    "final", "native", "goto", "synchronized", "throws", "transient", "volatile", "Rec", "fill", "getType", "_", "__", "_0_", "_1_",
];

impl Check for C17 {
    fn id(&self) -> &'static str {
        "C17"
    }
    fn rule(&self) -> &'static str {
        "A case is a generated well-typed program with a main service (inline, named, or a service constructor with init args), with definitions named from a pool that contains JavaScript reserved words, strict-mode and module reserved words, their `_`-suffixed twins, `IDL`, `init`, `idlFactory`, `eval`, `arguments`, and with method and field names from the full label pools (quotes, backslashes, control characters, NUL followed by digits, U+2028, `_N_` look-alikes). Oracle: the emitted module is evaluated by an interpreter for exactly the emitted subset under ECMAScript module rules (reserved words rejected as identifiers, string escapes decoded per the standard with legacy octal and out-of-range \\u{} as errors, const temporal dead zone, re-declaration errors, parameter shadowing error) against an IDL object that builds a type graph (Rec/fill/getType; keys _N_ are numeric ids as in the agent library); the service returned by idlFactory and the list returned by init must be bisimilar to the program's service and init argument types. Non-trivial = the program has a recursive definition, init args, or a definition/method/field name that is a JavaScript reserved word or needs quoting; distinct = distinct program."
    }
    fn assumptions(&self) -> Vec<String> {
        vec![
            "no JavaScript engine is used for verdicts; the interpreter implements only the emitted subset (any other construct is an evaluation error and therefore a violation)".into(),
            "field keys of the form _N_ denote numeric ids (convention of the JavaScript agent library)".into(),
        ]
    }
    fn max_len(&self) -> usize {
        768
    }
    fn cases(&self, tier: Tier) -> u64 {
        match tier {
            Tier::Quick => 600_000,
            Tier::Thorough => 20_000_000,
        }
    }
    /// Direct cases: program text.
    fn direct_case(&self, data: &[u8], ctx: &mut Ctx) -> Outcome {
        match std::str::from_utf8(data) {
            Ok(t) => check_program(t, ctx),
            Err(_) => Outcome::Skip("not-utf8"),
        }
    }
    fn one_case(&self, data: &[u8], ctx: &mut Ctx) -> Outcome {
        let mut e = Ent::new(data);
        let mut cfg = TypeCfg::default();
        cfg.odd_labels = e.ratio(1, 2);
        cfg.max_defs = 6;
        if e.ratio(2, 3) {
            cfg.def_names = JS_DEF_NAMES;
            ctx.class("js-flavoured-definition-names");
        }
        let (mut p, sc) = gen_prog(&mut e, &cfg);
        if p.actor.is_none() {
            p.actor = Some(crate::gen::types::gen_service(&mut e, &sc, 2, &cfg));
        }
        match &p.actor {
            Some(Ty::Class(..)) => ctx.class("service-constructor"),
            Some(Ty::Var(_)) => ctx.class("named-service"),
            _ => ctx.class("inline-service"),
        }
        let text = emit(&mut e, &p);
        check_program(&text, ctx)
    }
}

pub fn check_program(text: &str, ctx: &mut Ctx) -> Outcome {
    let (env, actor, _) = match parse_and_check(text) {
        Ok(x) => x,
        Err(err) => return Outcome::Fail(Failure::new("HARNESS-generated-program-rejected", format!("{err}\n{text}"))),
    };
    if actor.is_none() {
        return Outcome::Skip("no-main-service");
    }
    let want = match sem_of_candid(&env, &actor) {
        Ok(s) => s,
        Err(err) => return Outcome::Fail(Failure::new("checked-env-not-closed", err)),
    };
    let js = match guard(|| javascript::compile(&env, &actor)) {
        Ok(s) => s,
        Err(p) => return Outcome::Fail(Failure::new(format!("javascript::compile:{}", p.sig()), format!("{}\n{text}", p.message))),
    };
    let fail = |sig: &str, msg: String| Outcome::Fail(Failure::new(sig, format!("{msg}\n--- program ---\n{text}\n--- emitted JavaScript ---\n{js}")));
    let mut it = match Interp::new(&js) {
        Ok(i) => i,
        Err(e) => return fail("js:lexical-error", e.0),
    };
    let exported = match it.run() {
        Ok(x) => x,
        Err(e) => return fail("js:evaluation-error", e.0),
    };
    let factory = match exported.iter().find(|e| e.name == "idlFactory") {
        Some(f) => f,
        None => return fail("js:no-idlFactory", String::new()),
    };
    let service = match &factory.value {
        Val::Type(t) => *t,
        other => return fail("js:idlFactory-returns-non-type", format!("{other:?}")),
    };
    if !rsub::equal_across(&want.graph, want.service.unwrap(), &it.graph, service) {
        return fail(
            "js:service-differs",
            format!(
                "program service {}\nJavaScript service {}",
                crate::refmodel::rtype::show_node(&want.graph, want.service.unwrap(), 4),
                crate::refmodel::rtype::show_node(&it.graph, service, 4)
            ),
        );
    }
    let init = match exported.iter().find(|e| e.name == "init") {
        Some(f) => match &f.value {
            Val::Array(a) => a.clone(),
            other => return fail("js:init-returns-non-array", format!("{other:?}")),
        },
        None => return fail("js:no-init", String::new()),
    };
    if init.len() != want.init.len() {
        return fail("js:init-arity-differs", format!("{} vs {}", init.len(), want.init.len()));
    }
    for (i, (a, b)) in init.iter().zip(&want.init).enumerate() {
        match a {
            Val::Type(t) if rsub::equal_across(&want.graph, *b, &it.graph, *t) => {}
            other => return fail("js:init-arg-differs", format!("init argument {i}: {other:?}")),
        }
    }
    let interesting = js.contains("IDL.Rec()") || !want.init.is_empty() || js.contains('\\') || js.contains("_ =") || js.contains("_.fill") || text.contains('"');
    if js.contains("IDL.Rec()") {
        ctx.class("recursive");
    }
    if !want.init.is_empty() {
        ctx.class("init-args");
    }
    if interesting {
        ctx.nontrivial(digest_of(text.as_bytes()));
    }
    ctx.sample(|| format!("{text}\n--- JavaScript ---\n{js}"));
    Outcome::Pass
}
