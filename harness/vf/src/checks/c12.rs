//! C12 Printing an interface as .did text and re-checking it yields an equal interface.

use crate::corpus::registry::registry;
use crate::engine::panics::guard;
use crate::engine::{digest_of, Check, Ctx, Failure, Outcome, Tier};
use crate::gen::prog::{emit, emit_plain, gen_prog, Prog};
use crate::gen::types::TypeCfg;
use crate::gen::Ent;
use crate::refmodel::rsub;
use crate::refmodel::rtype::{self, Builder, Env, Graph, TId, Ty};
use candid::pretty::candid::{compile, compile_with_docs, DocComments};
use candid::types::{Type, TypeEnv};
use candid_parser::syntax::{pretty_print, IDLMergedProg};
use candid_parser::utils::{get_metadata, instantiate_candid, service_equal, CandidSource};
use candid_parser::{check_prog, IDLProg};

pub struct C12;

/// Semantic view of a checked program: graph, named definitions, actor parts.
pub struct Sem {
    pub graph: Graph,
    pub defs: Vec<(String, TId)>,
    pub init: Vec<TId>,
    pub service: Option<TId>,
}

pub fn sem_of(env: &Env, actor: Option<&Ty>) -> Result<Sem, String> {
    let mut b = Builder::new(env);
    let mut defs = vec![];
    for (n, _) in &env.defs {
        defs.push((n.clone(), b.ty(&Ty::Var(n.clone())).map_err(|e| format!("{e:?}"))?));
    }
    let (mut init, mut service) = (vec![], None);
    match actor {
        Some(Ty::Class(args, s)) => {
            for a in args {
                init.push(b.ty(a).map_err(|e| format!("{e:?}"))?);
            }
            service = Some(b.ty(s).map_err(|e| format!("{e:?}"))?);
        }
        Some(t) => service = Some(b.ty(t).map_err(|e| format!("{e:?}"))?),
        None => {}
    }
    Ok(Sem { graph: b.graph, defs, init, service })
}

pub fn sem_of_candid(env: &TypeEnv, actor: &Option<Type>) -> Result<Sem, String> {
    let renv = rtype::env_from_candid(env).map_err(|e| format!("{e:?}"))?;
    let ract = match actor {
        Some(a) => Some(rtype::from_candid(a).map_err(|e| format!("{e:?}"))?),
        None => None,
    };
    sem_of(&renv, ract.as_ref())
}

/// Same definition names with bisimilar bodies, bisimilar service and init args.
/// `subset`: b may define only some of a's names (metadata keeps reachable ones).
pub fn same_interface(a: &Sem, b: &Sem, subset: bool) -> Result<(), String> {
    if !subset && a.defs.len() != b.defs.len() {
        return Err(format!(
            "definitions differ: {:?} vs {:?}",
            a.defs.iter().map(|d| &d.0).collect::<Vec<_>>(),
            b.defs.iter().map(|d| &d.0).collect::<Vec<_>>()
        ));
    }
    for (n, tb) in &b.defs {
        match a.defs.iter().find(|d| d.0 == *n) {
            None => return Err(format!("definition {n} appears only after printing")),
            Some((_, ta)) => {
                if !rsub::equal_across(&a.graph, *ta, &b.graph, *tb) {
                    return Err(format!(
                        "definition {n} changed: {} became {}",
                        rtype::show_node(&a.graph, *ta, 4),
                        rtype::show_node(&b.graph, *tb, 4)
                    ));
                }
            }
        }
    }
    match (a.service, b.service) {
        (None, None) => {}
        (Some(x), Some(y)) => {
            if !rsub::equal_across(&a.graph, x, &b.graph, y) {
                return Err(format!("service changed: {} became {}", rtype::show_node(&a.graph, x, 4), rtype::show_node(&b.graph, y, 4)));
            }
        }
        _ => return Err("main service appeared or disappeared".into()),
    }
    if a.init.len() != b.init.len() {
        return Err(format!("init args: {} became {}", a.init.len(), b.init.len()));
    }
    for (x, y) in a.init.iter().zip(&b.init) {
        if !rsub::equal_across(&a.graph, *x, &b.graph, *y) {
            return Err("an init arg changed".into());
        }
    }
    Ok(())
}

pub fn parse_and_check(text: &str) -> Result<(TypeEnv, Option<Type>, IDLProg), String> {
    let r = guard(|| -> Result<(TypeEnv, Option<Type>, IDLProg), String> {
        let ast = text.parse::<IDLProg>().map_err(|e| format!("parse: {e}"))?;
        let mut env = TypeEnv::new();
        let actor = check_prog(&mut env, &ast).map_err(|e| format!("check: {e}"))?;
        Ok((env, actor, ast))
    });
    match r {
        Ok(x) => x,
        Err(p) => Err(format!("PANIC at {}: {}", p.location, p.message)),
    }
}

fn recheck(what: &str, printed: &str, original: &Sem, subset: bool) -> Result<(), Failure> {
    let (env2, actor2, _) = parse_and_check(printed).map_err(|e| {
        Failure::new(
            format!("{what}:printed-text-rejected"),
            format!("{e}\nprinted text:\n{printed}"),
        )
    })?;
    let s2 = sem_of_candid(&env2, &actor2).map_err(|e| Failure::new(format!("{what}:re-checked-env-not-closed"), format!("{e}\n{printed}")))?;
    same_interface(original, &s2, subset).map_err(|e| Failure::new(format!("{what}:interface-changed"), format!("{e}\nprinted text:\n{printed}")))
}

impl Check for C12 {
    fn id(&self) -> &'static str {
        "C12"
    }
    fn rule(&self) -> &'static str {
        "A case is a generated well-typed program (definitions over every constructor with named/numeric/quoted labels, keywords and odd characters as field and method names, recursion, aliases, function and service definitions, a main service, named service or service constructor), given to the checker as text printed by the harness's own emitter with random shorthands. Oracle: (1) the checked environment and actor are bisimilar, definition by definition with the same names, to the generated program; (2) candid::pretty::candid::compile(env, actor), compile_with_docs (doc comments attached to every definition and method) and candid_parser::syntax::pretty_print of the syntax tree each produce text that parses and type-checks to an interface bisimilar to the original (same definition names, field ids, method names, annotations, argument order, recursion structure); (3) printing twice gives identical text; (4) service_equal accepts original vs printed, instantiate_candid and get_metadata (reachable definitions only) agree. Plus: environments exported from the ~230 corpus Rust types through TypeContainer print to text that re-checks to bisimilar definitions. Non-trivial = the program has a recursive definition, a label or method needing quotes, a reference type or a constructor; distinct = distinct program text."
    }
    fn assumptions(&self) -> Vec<String> {
        vec!["structural equality is bisimilarity of type graphs computed by the harness (definition names compared separately)".into()]
    }
    fn max_len(&self) -> usize {
        768
    }
    fn cases(&self, tier: Tier) -> u64 {
        match tier {
            Tier::Quick => 300_000,
            Tier::Thorough => 10_000_000,
        }
    }
    /// Direct cases: program text.
    fn direct_case(&self, data: &[u8], ctx: &mut Ctx) -> Outcome {
        match std::str::from_utf8(data) {
            Ok(t) if t.starts_with(EXPORT_TAG) => rust_export_direct(&t[EXPORT_TAG.len()..], ctx),
            Ok(t) => check_text(t, None, ctx),
            Err(_) => Outcome::Skip("not-utf8"),
        }
    }
    /// Every corpus type exported alone on a fresh thread, and after its registry
    /// neighbour (and the other way round).
    fn enumerate(&self, _tier: Tier, shard: u64, nshards: u64, emit: &mut dyn FnMut(&[u8]) -> bool) {
        let reg = registry();
        let mut k = 0u64;
        for i in 0..reg.len() {
            let j = (i + 1) % reg.len();
            for d in [
                format!("{EXPORT_TAG}{}", reg[i].name()),
                format!("{EXPORT_TAG}{}|{}", reg[i].name(), reg[j].name()),
                format!("{EXPORT_TAG}{}|{}", reg[j].name(), reg[i].name()),
            ] {
                k += 1;
                if k % nshards == shard && !emit(d.as_bytes()) {
                    return;
                }
            }
        }
    }
    fn one_case(&self, data: &[u8], ctx: &mut Ctx) -> Outcome {
        let mut e = Ent::new(data);
        if e.ratio(1, 10) {
            return rust_export_case(&mut e, ctx);
        }
        let mut cfg = TypeCfg::default();
        cfg.odd_labels = e.ratio(1, 2);
        cfg.max_defs = 6;
        let (p, _) = gen_prog(&mut e, &cfg);
        let text = emit(&mut e, &p);
        if cfg.odd_labels {
            ctx.class("odd-labels");
        }
        check_text(&text, Some(&p), ctx)
    }
}

fn check_text(text: &str, p: Option<&Prog>, ctx: &mut Ctx) -> Outcome {
    let (env, actor, ast) = match parse_and_check(text) {
        Ok(x) => x,
        Err(err) => {
            return match p {
                Some(p) => Outcome::Fail(Failure::new(
                    "generated-program-rejected",
                    format!("{err}\nprogram text:\n{text}\nplain form:\n{}", emit_plain(p)),
                )),
                None => Outcome::Skip("direct-text-rejected"),
            }
        }
    };
    let original = match sem_of_candid(&env, &actor) {
        Ok(s) => s,
        Err(err) => return Outcome::Fail(Failure::new("checked-env-not-closed", format!("{err}\n{text}"))),
    };
    // (1) the checker read what the text says
    if let Some(p) = p {
        let want = match sem_of(&p.env, p.actor.as_ref()) {
            Ok(s) => s,
            Err(err) => return Outcome::Fail(Failure::new("HARNESS-generator-unsound", err)),
        };
        if let Err(err) = same_interface(&want, &original, false) {
            return Outcome::Fail(Failure::new("checker-misreads-program", format!("{err}\nprogram text:\n{text}")));
        }
        if p.env.defs.iter().any(|(n, t)| mentions(t, n)) {
            ctx.class("recursive-definition");
        }
        match &p.actor {
            Some(Ty::Class(..)) => ctx.class("service-constructor"),
            Some(Ty::Var(_)) => ctx.class("named-service"),
            Some(_) => ctx.class("inline-service"),
            None => ctx.class("no-service"),
        }
    }
    // (2a) type-level printer
    let printed = match guard(|| (compile(&env, &actor), compile(&env, &actor))) {
        Ok((a, b)) => {
            if a != b {
                return Outcome::Fail(Failure::new("compile:not-deterministic", format!("{a}\n---\n{b}")));
            }
            a
        }
        Err(pn) => return Outcome::Fail(Failure::new(format!("compile:{}", pn.sig()), format!("{}\n{text}", pn.message))),
    };
    if let Err(f) = recheck("compile", &printed, &original, false) {
        return Outcome::Fail(Failure::new(f.sig, format!("{}\noriginal text:\n{text}", f.msg)));
    }
    // (2b) with doc comments on every definition and method
    let mut docs = DocComments::empty();
    for name in env.0.keys() {
        docs.add_type_def(
            name.clone(),
            candid::types::TypeDoc {
                docs: vec!["doc line */ one".into(), "`two` ${x} \\".into()],
                fields: Default::default(),
            },
        );
    }
    if let Some(a) = &actor {
        if let Ok(ms) = env.as_service(a) {
            for (m, _) in ms {
                docs.add_service_method(m.clone(), vec!["method doc".into()]);
            }
        }
    }
    match guard(|| compile_with_docs(&env, &actor, &docs)) {
        Ok(with_docs) => {
            if let Err(f) = recheck("compile_with_docs", &with_docs, &original, false) {
                return Outcome::Fail(Failure::new(f.sig, format!("{}\noriginal text:\n{text}", f.msg)));
            }
        }
        Err(pn) => return Outcome::Fail(Failure::new(format!("compile_with_docs:{}", pn.sig()), format!("{}\n{text}", pn.message))),
    }
    // (2c) syntax-tree printer
    let _ = &ast;
    match guard(|| {
        // IDLProg is not Clone: parse the text again for the syntax-tree printer
        let ast2 = text.parse::<IDLProg>().expect("parsed before");
        let m = IDLMergedProg::new(ast2);
        (pretty_print(&m), pretty_print(&m))
    }) {
        Ok((a, b)) => {
            if a != b {
                return Outcome::Fail(Failure::new("pretty_print:not-deterministic", a));
            }
            if let Err(f) = recheck("syntax::pretty_print", &a, &original, false) {
                return Outcome::Fail(Failure::new(f.sig, format!("{}\noriginal text:\n{text}", f.msg)));
            }
        }
        Err(pn) => return Outcome::Fail(Failure::new(format!("pretty_print:{}", pn.sig()), format!("{}\n{text}", pn.message))),
    }
    // (4) utils
    if actor.is_some() {
        match guard(|| service_equal(CandidSource::Text(text), CandidSource::Text(&printed)).map_err(|e| e.to_string())) {
            Ok(Ok(())) => {}
            Ok(Err(err)) => return Outcome::Fail(Failure::new("service_equal:original-vs-printed", format!("{err}\n{text}\n---\n{printed}"))),
            Err(pn) => return Outcome::Fail(Failure::new(format!("service_equal:{}", pn.sig()), pn.message)),
        }
        match guard(|| instantiate_candid(CandidSource::Text(&printed)).map_err(|e| e.to_string())) {
            Ok(Ok((args, (env3, serv)))) => {
                let s3 = match sem_of_candid(&env3, &Some(if args.is_empty() { serv.clone() } else { candid::types::TypeInner::Class(args.clone(), serv.clone()).into() })) {
                    Ok(s) => s,
                    Err(err) => return Outcome::Fail(Failure::new("instantiate_candid:env-not-closed", err)),
                };
                if let Err(err) = same_interface(&original, &s3, true) {
                    return Outcome::Fail(Failure::new("instantiate_candid:interface-changed", format!("{err}\n{printed}")));
                }
            }
            Ok(Err(err)) => return Outcome::Fail(Failure::new("instantiate_candid:fails", format!("{err}\n{printed}"))),
            Err(pn) => return Outcome::Fail(Failure::new(format!("instantiate_candid:{}", pn.sig()), pn.message)),
        }
        match guard(|| get_metadata(&env, &actor)) {
            Ok(Some(meta)) => {
                // metadata keeps the service (without init args) and the definitions it reaches
                let mut orig_no_init = Sem { graph: original.graph.clone(), defs: original.defs.clone(), init: vec![], service: original.service };
                orig_no_init.init.clear();
                if let Err(f) = recheck("get_metadata", &meta, &orig_no_init, true) {
                    return Outcome::Fail(Failure::new(f.sig, format!("{}\noriginal text:\n{text}", f.msg)));
                }
            }
            Ok(None) => return Outcome::Fail(Failure::new("get_metadata:none", text.to_string())),
            Err(pn) => return Outcome::Fail(Failure::new(format!("get_metadata:{}", pn.sig()), format!("{}\n{text}", pn.message))),
        }
    }
    let quoted = text.contains('"');
    if quoted {
        ctx.class("quoted-names");
    }
    if quoted || text.contains("func") || text.contains("service {") || text.contains("->") {
        ctx.nontrivial(digest_of(text.as_bytes()));
    }
    ctx.sample(|| format!("{text}\n=== compile ===\n{printed}"));
    Outcome::Pass
}

fn mentions(t: &Ty, name: &str) -> bool {
    match t {
        Ty::Var(n) => n == name,
        Ty::Opt(x) | Ty::Vec(x) => mentions(x, name),
        Ty::Record(fs) | Ty::Variant(fs) => fs.iter().any(|(_, x)| mentions(x, name)),
        Ty::Func { args, rets, .. } => args.iter().chain(rets).any(|x| mentions(x, name)),
        Ty::Service(ms) => ms.iter().any(|(_, x)| mentions(x, name)),
        Ty::Class(a, x) => a.iter().any(|y| mentions(y, name)) || mentions(x, name),
        _ => false,
    }
}

/// Environments exported from Rust types.
fn rust_export_case(e: &mut Ent, ctx: &mut Ctx) -> Outcome {
    let reg = registry();
    let n = e.range(1, 4);
    let idx: Vec<usize> = (0..n).map(|_| e.below(reg.len())).collect();
    // The derive macro memoizes types per thread, so what a container exports can
    // depend on which types were derived before: half of the cases run on a fresh
    // thread after a generated history of other exports.
    let fresh = e.bool();
    let hist: Vec<usize> = if fresh { (0..e.range(0, 3)).map(|_| e.below(reg.len())).collect() } else { vec![] };
    let mut names = idx.iter().map(|i| reg[*i].name()).collect::<Vec<_>>().join(", ");
    if fresh {
        names.push_str(&format!(" [fresh thread, after exporting: {}]", hist.iter().map(|i| reg[*i].name()).collect::<Vec<_>>().join(", ")));
    }
    ctx.class("rust-exported-environment");
    let job = {
        let names = names.clone();
        move || export_and_judge(&idx, &hist, &names)
    };
    let r = if fresh {
        ctx.class("rust-export-on-fresh-thread-after-history");
        match std::thread::Builder::new().stack_size(16 << 20).spawn(job).map(|h| h.join()) {
            Ok(Ok(r)) => r,
            _ => return Outcome::Fail(Failure::new("type-container:thread-died", format!("export thread died\ntypes: {names}"))),
        }
    } else {
        job()
    };
    match r {
        Err(f) => Outcome::Fail(f),
        Ok((printed, nonempty)) => {
            if nonempty {
                ctx.nontrivial(digest_of(printed.as_bytes()));
            }
            ctx.sample(|| format!("Rust types ({names}) export to:\n{printed}"));
            Outcome::Pass
        }
    }
}

const EXPORT_TAG: &str = "#rust-export:";

/// `NAME[,NAME..][|HISTORY_NAME[,..]]`: export on a fresh thread.
fn rust_export_direct(spec: &str, ctx: &mut Ctx) -> Outcome {
    let reg = registry();
    let find = |n: &str| reg.iter().position(|t| t.name() == n);
    let (tys, hist) = spec.split_once('|').unwrap_or((spec, ""));
    let idx: Option<Vec<usize>> = tys.split(',').map(|n| find(n.trim())).collect();
    let hist: Option<Vec<usize>> = hist.split(',').filter(|n| !n.trim().is_empty()).map(|n| find(n.trim())).collect();
    let (idx, hist) = match (idx, hist) {
        (Some(i), Some(h)) => (i, h),
        _ => return Outcome::Skip("unknown-corpus-type"),
    };
    ctx.class("rust-export-enumerated");
    let names = spec.to_string();
    let job = {
        let names = names.clone();
        move || export_and_judge(&idx, &hist, &names)
    };
    match std::thread::Builder::new().stack_size(16 << 20).spawn(job).map(|h| h.join()) {
        Ok(Ok(Ok((printed, nonempty)))) => {
            if nonempty {
                ctx.nontrivial(digest_of(printed.as_bytes()));
            }
            Outcome::Pass
        }
        Ok(Ok(Err(f))) => Outcome::Fail(f),
        _ => Outcome::Fail(Failure::new("type-container:thread-died", format!("export thread died\ntypes: {names}"))),
    }
}

fn export_and_judge(idx: &[usize], hist: &[usize], names: &str) -> Result<(String, bool), Failure> {
    let reg = registry();
    let exported = guard(|| {
        for h in hist {
            let mut c = candid::types::internal::TypeContainer::new();
            let _ = reg[*h].add_to(&mut c);
        }
        let mut c = candid::types::internal::TypeContainer::new();
        let tys: Vec<Type> = idx.iter().map(|i| reg[*i].add_to(&mut c)).collect();
        (c.env, tys)
    });
    let (env, _tys) = match exported {
        Ok(x) => x,
        Err(p) => return Err(Failure::new(format!("type-container:{}", p.sig()), p.message)),
    };
    let original = match sem_of_candid(&env, &None) {
        Ok(s) => s,
        Err(err) => return Err(Failure::new("rust-export:env-not-closed", format!("{err}\ntypes: {names}\n{env}"))),
    };
    let printed = match guard(|| compile(&env, &None)) {
        Ok(s) => s,
        Err(p) => return Err(Failure::new(format!("compile:{}", p.sig()), p.message)),
    };
    if let Err(f) = recheck("compile(rust-export)", &printed, &original, false) {
        return Err(Failure::new(f.sig, format!("{}\ntypes: {names}", f.msg)));
    }
    Ok((printed, !env.0.is_empty()))
}
