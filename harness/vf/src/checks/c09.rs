//! C09 Unbounded and 128-bit integer codecs implement (S)LEB128 exactly.
//! Oracle: refmodel::rleb (arithmetic definition over big integers).

use crate::engine::panics::guard;
use crate::engine::{digest_of, Check, Ctx, Failure, Outcome, Tier};
use crate::gen::Ent;
use crate::refmodel::rleb;
use candid::types::leb128 as cleb;
use candid::{Decode, Encode, IDLArgs, IDLValue, Int, Nat};
use num_bigint::{BigInt, BigUint};
use num_traits::{One, Zero};
use std::collections::BTreeMap;
use std::io::Cursor;

pub struct C09;

fn hex(s: &[u8]) -> String {
    hex::encode(s)
}

fn msg(header: &[u8], body: &[&[u8]]) -> Vec<u8> {
    let mut m = b"DIDL".to_vec();
    m.extend_from_slice(header);
    for b in body {
        m.extend_from_slice(b);
    }
    m
}

macro_rules! dec {
    ($name:expr, $e:expr) => {
        match guard(|| $e) {
            Ok(r) => r.map_err(|e| e.to_string()),
            Err(p) => {
                return Err(Failure::new(
                    format!("{}:{}", $name, p.sig()),
                    format!("{} panicked at {}: {}", $name, p.location, p.message),
                ))
            }
        }
    };
}

fn bad(name: &str, kind: &str, s: &[u8], detail: String) -> Failure {
    Failure::new(
        format!("{name}:{kind}"),
        format!("{name}: {kind} on (S)LEB128 string {} — {detail}", hex(s)),
    )
}

const SENTINEL: [u8; 2] = [0xaa, 0x55];

fn u128_max() -> BigUint {
    BigUint::from(u128::MAX)
}

/// All nat decoders on a terminated or unterminated string.
fn check_nat_string(s: &[u8]) -> Result<(), Failure> {
    let reference = rleb::uleb_decode(s);
    let mut with_sentinel = s.to_vec();
    with_sentinel.extend_from_slice(&SENTINEL);
    match reference {
        None => {
            // unterminated: every decoder must return an error
            let r = dec!("Nat::decode", Nat::decode(&mut Cursor::new(s)));
            if r.is_ok() {
                return Err(bad("Nat::decode", "accepted-unterminated", s, format!("{r:?}")));
            }
            let r = dec!("leb128::decode_nat", cleb::decode_nat(&mut Cursor::new(s)));
            if r.is_ok() {
                return Err(bad("leb128::decode_nat", "accepted-unterminated", s, format!("{r:?}")));
            }
            let m = msg(&[0, 1, 0x7d], &[s]);
            let r = dec!("Decode!(Nat)", Decode!(&m, Nat));
            if r.is_ok() {
                return Err(bad("Decode!(Nat)", "accepted-unterminated", s, format!("{r:?}")));
            }
            let r = dec!("Decode!(u128)", Decode!(&m, u128));
            if r.is_ok() {
                return Err(bad("Decode!(u128)", "accepted-unterminated", s, format!("{r:?}")));
            }
            let r = dec!("untyped nat", IDLArgs::from_bytes(&m));
            if r.is_ok() {
                return Err(bad("untyped nat", "accepted-unterminated", s, String::new()));
            }
            Ok(())
        }
        Some((v, n)) => {
            debug_assert_eq!(n, s.len());
            // standalone big-number decoder
            let mut c = Cursor::new(&with_sentinel[..]);
            match dec!("Nat::decode", Nat::decode(&mut c)) {
                Ok(x) => {
                    if x.0 != v {
                        return Err(bad("Nat::decode", "wrong-value", s, format!("got {} want {}", x.0, v)));
                    }
                    if c.position() as usize != n {
                        return Err(bad("Nat::decode", "wrong-consumed", s, format!("consumed {} want {}", c.position(), n)));
                    }
                }
                Err(e) => return Err(bad("Nat::decode", "rejected", s, e)),
            }
            // 128-bit standalone
            let fits = v <= u128_max();
            let mut c = Cursor::new(&with_sentinel[..]);
            match dec!("leb128::decode_nat", cleb::decode_nat(&mut c)) {
                Ok(x) => {
                    if !fits {
                        return Err(bad("leb128::decode_nat", "accepted-out-of-range", s, format!("got {x} for {v}")));
                    }
                    if BigUint::from(x) != v {
                        return Err(bad("leb128::decode_nat", "wrong-value", s, format!("got {x} want {v}")));
                    }
                    if c.position() as usize != n {
                        return Err(bad("leb128::decode_nat", "wrong-consumed", s, format!("consumed {} want {}", c.position(), n)));
                    }
                }
                Err(e) => {
                    if fits {
                        return Err(bad("leb128::decode_nat", "rejected-in-range", s, e));
                    }
                }
            }
            // inside messages
            let m = msg(&[0, 1, 0x7d], &[s]);
            match dec!("Decode!(Nat)", Decode!(&m, Nat)) {
                Ok(x) if x.0 == v => {}
                Ok(x) => return Err(bad("Decode!(Nat)", "wrong-value", s, format!("got {} want {}", x.0, v))),
                Err(e) => return Err(bad("Decode!(Nat)", "rejected", s, e)),
            }
            match dec!("Decode!(u128)", Decode!(&m, u128)) {
                Ok(x) => {
                    if !fits {
                        return Err(bad("Decode!(u128)", "accepted-out-of-range", s, format!("got {x} for {v}")));
                    }
                    if BigUint::from(x) != v {
                        return Err(bad("Decode!(u128)", "wrong-value", s, format!("got {x} want {v}")));
                    }
                }
                Err(e) => {
                    if fits {
                        return Err(bad("Decode!(u128)", "rejected-in-range", s, e));
                    }
                }
            }
            // nat on the wire read at int
            match dec!("Decode!(Int) from nat", Decode!(&m, Int)) {
                Ok(x) if x.0 == BigInt::from(v.clone()) => {}
                Ok(x) => return Err(bad("Decode!(Int) from nat", "wrong-value", s, format!("got {} want {}", x.0, v))),
                Err(e) => return Err(bad("Decode!(Int) from nat", "rejected", s, e)),
            }
            let fits_i = v <= BigUint::from(i128::MAX as u128);
            match dec!("Decode!(i128) from nat", Decode!(&m, i128)) {
                Ok(x) => {
                    if !fits_i {
                        return Err(bad("Decode!(i128) from nat", "accepted-out-of-range", s, format!("got {x} for {v}")));
                    }
                    if BigInt::from(x) != BigInt::from(v.clone()) {
                        return Err(bad("Decode!(i128) from nat", "wrong-value", s, format!("got {x} want {v}")));
                    }
                }
                Err(e) => {
                    if fits_i {
                        return Err(bad("Decode!(i128) from nat", "rejected-in-range", s, e));
                    }
                }
            }
            // vec nat with two elements
            let m = msg(&[1, 0x6d, 0x7d, 1, 0], &[&[2], s, s]);
            match dec!("Decode!(Vec<Nat>)", Decode!(&m, Vec<Nat>)) {
                Ok(x) if x.len() == 2 && x[0].0 == v && x[1].0 == v => {}
                Ok(x) => return Err(bad("Decode!(Vec<Nat>)", "wrong-value", s, format!("got {x:?} want 2×{v}"))),
                Err(e) => return Err(bad("Decode!(Vec<Nat>)", "rejected", s, e)),
            }
            // vec nat read at Vec<Int>
            match dec!("Decode!(Vec<Int>) from vec nat", Decode!(&m, Vec<Int>)) {
                Ok(x) if x.len() == 2 && x[0].0 == BigInt::from(v.clone()) && x[1].0 == BigInt::from(v.clone()) => {}
                Ok(x) => return Err(bad("Decode!(Vec<Int>) from vec nat", "wrong-value", s, format!("got {x:?} want 2×{v}"))),
                Err(e) => return Err(bad("Decode!(Vec<Int>) from vec nat", "rejected", s, e)),
            }
            // map text -> nat
            let m = msg(&[2, 0x6d, 1, 0x6c, 2, 0, 0x71, 1, 0x7d, 1, 0], &[&[1, 1, b'k'], s]);
            match dec!("Decode!(BTreeMap<String,Nat>)", Decode!(&m, BTreeMap<String, Nat>)) {
                Ok(x) if x.len() == 1 && x.get("k").map(|n| n.0 == v).unwrap_or(false) => {}
                Ok(x) => return Err(bad("Decode!(BTreeMap<String,Nat>)", "wrong-value", s, format!("got {x:?} want k->{v}"))),
                Err(e) => return Err(bad("Decode!(BTreeMap<String,Nat>)", "rejected", s, e)),
            }
            // untyped
            let m = msg(&[0, 1, 0x7d], &[s]);
            match dec!("untyped nat", IDLArgs::from_bytes(&m)) {
                Ok(a) => match a.args.as_slice() {
                    [IDLValue::Nat(x)] if x.0 == v => {}
                    other => return Err(bad("untyped nat", "wrong-value", s, format!("got {other:?} want {v}"))),
                },
                Err(e) => return Err(bad("untyped nat", "rejected", s, e)),
            }
            Ok(())
        }
    }
}

fn i128_fits(v: &BigInt) -> bool {
    *v >= BigInt::from(i128::MIN) && *v <= BigInt::from(i128::MAX)
}

fn check_int_string(s: &[u8]) -> Result<(), Failure> {
    let reference = rleb::sleb_decode(s);
    let mut with_sentinel = s.to_vec();
    with_sentinel.extend_from_slice(&SENTINEL);
    match reference {
        None => {
            let r = dec!("Int::decode", Int::decode(&mut Cursor::new(s)));
            if r.is_ok() {
                return Err(bad("Int::decode", "accepted-unterminated", s, format!("{r:?}")));
            }
            let r = dec!("leb128::decode_int", cleb::decode_int(&mut Cursor::new(s)));
            if r.is_ok() {
                return Err(bad("leb128::decode_int", "accepted-unterminated", s, format!("{r:?}")));
            }
            let m = msg(&[0, 1, 0x7c], &[s]);
            let r = dec!("Decode!(Int)", Decode!(&m, Int));
            if r.is_ok() {
                return Err(bad("Decode!(Int)", "accepted-unterminated", s, format!("{r:?}")));
            }
            let r = dec!("Decode!(i128)", Decode!(&m, i128));
            if r.is_ok() {
                return Err(bad("Decode!(i128)", "accepted-unterminated", s, format!("{r:?}")));
            }
            let r = dec!("untyped int", IDLArgs::from_bytes(&m));
            if r.is_ok() {
                return Err(bad("untyped int", "accepted-unterminated", s, String::new()));
            }
            Ok(())
        }
        Some((v, n)) => {
            let mut c = Cursor::new(&with_sentinel[..]);
            match dec!("Int::decode", Int::decode(&mut c)) {
                Ok(x) => {
                    if x.0 != v {
                        return Err(bad("Int::decode", "wrong-value", s, format!("got {} want {}", x.0, v)));
                    }
                    if c.position() as usize != n {
                        return Err(bad("Int::decode", "wrong-consumed", s, format!("consumed {} want {}", c.position(), n)));
                    }
                }
                Err(e) => return Err(bad("Int::decode", "rejected", s, e)),
            }
            let fits = i128_fits(&v);
            let mut c = Cursor::new(&with_sentinel[..]);
            match dec!("leb128::decode_int", cleb::decode_int(&mut c)) {
                Ok(x) => {
                    if !fits {
                        return Err(bad("leb128::decode_int", "accepted-out-of-range", s, format!("got {x} for {v}")));
                    }
                    if BigInt::from(x) != v {
                        return Err(bad("leb128::decode_int", "wrong-value", s, format!("got {x} want {v}")));
                    }
                    if c.position() as usize != n {
                        return Err(bad("leb128::decode_int", "wrong-consumed", s, format!("consumed {} want {}", c.position(), n)));
                    }
                }
                Err(e) => {
                    if fits {
                        return Err(bad("leb128::decode_int", "rejected-in-range", s, e));
                    }
                }
            }
            let m = msg(&[0, 1, 0x7c], &[s]);
            match dec!("Decode!(Int)", Decode!(&m, Int)) {
                Ok(x) if x.0 == v => {}
                Ok(x) => return Err(bad("Decode!(Int)", "wrong-value", s, format!("got {} want {}", x.0, v))),
                Err(e) => return Err(bad("Decode!(Int)", "rejected", s, e)),
            }
            match dec!("Decode!(i128)", Decode!(&m, i128)) {
                Ok(x) => {
                    if !fits {
                        return Err(bad("Decode!(i128)", "accepted-out-of-range", s, format!("got {x} for {v}")));
                    }
                    if BigInt::from(x) != v {
                        return Err(bad("Decode!(i128)", "wrong-value", s, format!("got {x} want {v}")));
                    }
                }
                Err(e) => {
                    if fits {
                        return Err(bad("Decode!(i128)", "rejected-in-range", s, e));
                    }
                }
            }
            let m = msg(&[1, 0x6d, 0x7c, 1, 0], &[&[2], s, s]);
            match dec!("Decode!(Vec<Int>)", Decode!(&m, Vec<Int>)) {
                Ok(x) if x.len() == 2 && x[0].0 == v && x[1].0 == v => {}
                Ok(x) => return Err(bad("Decode!(Vec<Int>)", "wrong-value", s, format!("got {x:?} want 2×{v}"))),
                Err(e) => return Err(bad("Decode!(Vec<Int>)", "rejected", s, e)),
            }
            // map nat8 -> int
            let m = msg(&[2, 0x6d, 1, 0x6c, 2, 0, 0x7b, 1, 0x7c, 1, 0], &[&[1, 7], s]);
            match dec!("Decode!(BTreeMap<u8,Int>)", Decode!(&m, BTreeMap<u8, Int>)) {
                Ok(x) if x.len() == 1 && x.get(&7).map(|n| n.0 == v).unwrap_or(false) => {}
                Ok(x) => return Err(bad("Decode!(BTreeMap<u8,Int>)", "wrong-value", s, format!("got {x:?} want 7->{v}"))),
                Err(e) => return Err(bad("Decode!(BTreeMap<u8,Int>)", "rejected", s, e)),
            }
            // map text -> int
            let m = msg(&[2, 0x6d, 1, 0x6c, 2, 0, 0x71, 1, 0x7c, 1, 0], &[&[1, 1, b'k'], s]);
            match dec!("Decode!(BTreeMap<String,Int>)", Decode!(&m, BTreeMap<String, Int>)) {
                Ok(x) if x.len() == 1 && x.get("k").map(|n| n.0 == v).unwrap_or(false) => {}
                Ok(x) => return Err(bad("Decode!(BTreeMap<String,Int>)", "wrong-value", s, format!("got {x:?} want k->{v}"))),
                Err(e) => return Err(bad("Decode!(BTreeMap<String,Int>)", "rejected", s, e)),
            }
            let m = msg(&[0, 1, 0x7c], &[s]);
            match dec!("untyped int", IDLArgs::from_bytes(&m)) {
                Ok(a) => match a.args.as_slice() {
                    [IDLValue::Int(x)] if x.0 == v => {}
                    other => return Err(bad("untyped int", "wrong-value", s, format!("got {other:?} want {v}"))),
                },
                Err(e) => return Err(bad("untyped int", "rejected", s, e)),
            }
            Ok(())
        }
    }
}

/// Encoders emit exactly the minimal string.
fn check_encoders(v: &BigInt) -> Result<(), Failure> {
    let bad_enc = |name: &str, got: &[u8], want: &[u8]| {
        Failure::new(
            format!("{name}:non-minimal-or-wrong"),
            format!("{name} of {v}: got {} want {}", hex(got), hex(want)),
        )
    };
    // int encoders
    let want = rleb::sleb_encode(v);
    let mut out = vec![];
    dec!("Int::encode", Int(v.clone()).encode(&mut out)).map_err(|e| Failure::new("Int::encode:error", e))?;
    if out != want {
        return Err(bad_enc("Int::encode", &out, &want));
    }
    let m = dec!("Encode!(Int)", Encode!(&Int(v.clone()))).map_err(|e| Failure::new("Encode!(Int):error", e))?;
    if m != msg(&[0, 1, 0x7c], &[&want]) {
        return Err(bad_enc("Encode!(Int)", &m, &want));
    }
    if i128_fits(v) {
        let x: i128 = v.try_into().unwrap();
        let mut out = vec![];
        dec!("leb128::encode_int", cleb::encode_int(&mut out, x)).map_err(|e| Failure::new("leb128::encode_int:error", e))?;
        if out != want {
            return Err(bad_enc("leb128::encode_int", &out, &want));
        }
        let m = dec!("Encode!(i128)", Encode!(&x)).map_err(|e| Failure::new("Encode!(i128):error", e))?;
        if m != msg(&[0, 1, 0x7c], &[&want]) {
            return Err(bad_enc("Encode!(i128)", &m, &want));
        }
    }
    if let Some(u) = v.to_biguint() {
        let want = rleb::uleb_encode(&u);
        let mut out = vec![];
        dec!("Nat::encode", Nat(u.clone()).encode(&mut out)).map_err(|e| Failure::new("Nat::encode:error", e))?;
        if out != want {
            return Err(bad_enc("Nat::encode", &out, &want));
        }
        let m = dec!("Encode!(Nat)", Encode!(&Nat(u.clone()))).map_err(|e| Failure::new("Encode!(Nat):error", e))?;
        if m != msg(&[0, 1, 0x7d], &[&want]) {
            return Err(bad_enc("Encode!(Nat)", &m, &want));
        }
        if u <= u128_max() {
            let x: u128 = (&u).try_into().unwrap();
            let mut out = vec![];
            dec!("leb128::encode_nat", cleb::encode_nat(&mut out, x)).map_err(|e| Failure::new("leb128::encode_nat:error", e))?;
            if out != want {
                return Err(bad_enc("leb128::encode_nat", &out, &want));
            }
            let m = dec!("Encode!(u128)", Encode!(&x)).map_err(|e| Failure::new("Encode!(u128):error", e))?;
            if m != msg(&[0, 1, 0x7d], &[&want]) {
                return Err(bad_enc("Encode!(u128)", &m, &want));
            }
        }
        // vector of big numbers through the typed API
        let m = dec!("Encode!(Vec<Nat>)", Encode!(&vec![Nat(u.clone()), Nat(u.clone())])).map_err(|e| Failure::new("Encode!(Vec<Nat>):error", e))?;
        if m != msg(&[1, 0x6d, 0x7d, 1, 0], &[&[2], &want, &want]) {
            return Err(bad_enc("Encode!(Vec<Nat>)", &m, &want));
        }
    }
    Ok(())
}

const PREFIX_PATTERNS: [u8; 6] = [0x80, 0xff, 0x81, 0xc0, 0xaa, 0xd5];
const BOUNDARY_LENGTHS: [usize; 12] = [7, 8, 9, 10, 11, 12, 17, 18, 19, 20, 21, 22];
const PAD_COUNTS: [usize; 4] = [0, 1, 5, 19];

fn run_direct(data: &[u8], ctx: &mut Ctx) -> Outcome {
    if data.is_empty() {
        return Outcome::Skip("empty");
    }
    let tag = data[0];
    let s = &data[1..];
    let r = match tag {
        0 => {
            ctx.class("nat-string");
            check_nat_string(s)
        }
        1 => {
            ctx.class("int-string");
            check_int_string(s)
        }
        _ => {
            // encoders: value is the sleb decoding of s
            ctx.class("encoders");
            match rleb::sleb_decode(s) {
                Some((v, _)) => {
                    let r = check_encoders(&v);
                    if r.is_ok() {
                        // and the minimal encoding decodes back
                        let e = rleb::sleb_encode(&v);
                        check_int_string(&e).and_then(|_| match v.to_biguint() {
                            Some(u) => check_nat_string(&rleb::uleb_encode(&u)),
                            None => Ok(()),
                        })
                    } else {
                        r
                    }
                }
                None => return Outcome::Skip("unterminated-value"),
            }
        }
    };
    // classification
    let terminated = s.last().map(|b| b & 0x80 == 0).unwrap_or(false);
    if !terminated {
        ctx.class("unterminated");
    } else {
        let minimal = if tag == 0 { rleb::is_minimal_uleb(s) } else { rleb::is_minimal_sleb(s) };
        if !minimal {
            ctx.class("padded");
        }
        match s.len() {
            0..=1 => {}
            2..=8 => ctx.class("len-2..8"),
            9..=11 => ctx.class("len-9..11 (64-bit boundary)"),
            12..=17 => ctx.class("len-12..17"),
            18..=20 => ctx.class("len-18..20 (128-bit boundary)"),
            _ => ctx.class("len-21.."),
        }
    }
    if s.len() >= 2 {
        ctx.nontrivial(digest_of(data));
    }
    ctx.sample(|| {
        let what = match tag {
            0 => "nat",
            1 => "int",
            _ => "encode",
        };
        let val = match tag {
            0 => rleb::uleb_decode(s).map(|(v, _)| v.to_string()),
            _ => rleb::sleb_decode(s).map(|(v, _)| v.to_string()),
        };
        format!("{what} string {} => {}", hex(s), val.unwrap_or_else(|| "unterminated".into()))
    });
    match r {
        Ok(()) => Outcome::Pass,
        Err(f) => Outcome::Fail(f),
    }
}

fn near_pow2(e: &mut Ent) -> BigInt {
    let ks: [u32; 24] = [6, 7, 8, 13, 14, 15, 31, 32, 55, 56, 57, 62, 63, 64, 65, 70, 126, 127, 128, 129, 133, 140, 199, 200];
    let k = *e.pick(&ks);
    let mut v = BigInt::one() << k;
    v += BigInt::from(e.range_i64(-2, 2));
    if e.bool() {
        v = -v;
    }
    v
}

impl Check for C09 {
    fn id(&self) -> &'static str {
        "C09"
    }
    fn rule(&self) -> &'static str {
        "Cases are (S)LEB128 byte strings (and integers for the encoders). Enumerated: every terminated string of length <= 2 (quick) / <= 3 (thorough) for nat and int, plus boundary families (total length 7..12 and 17..22, six prefix fills x all 128 final bytes x minimal/padded tails 0x80*j 0x00, 0xff*j 0x7f). Generated: random strings up to 40 bytes, padded minimal encodings, unterminated strings, integers +-(2^k + d) for k up to 200 and random up to 2^256. Each string goes through Nat/Int::decode, leb128::decode_nat/int, Decode! at Nat, Int, u128, i128, Vec<Nat>, Vec<Int>, BTreeMap<String,Nat|Int>, BTreeMap<u8,Int>, nat-at-int, and untyped decoding; each integer through all encoders. Oracle: arithmetic definition over big integers (value and bytes consumed, range acceptance for 128-bit hosts). Non-trivial = string of >= 2 bytes; distinct = distinct (kind, string)."
    }
    fn assumptions(&self) -> Vec<String> {
        vec![
            "num-bigint arithmetic (used only by the reference) is correct".into(),
            "on rejection by a 128-bit decoder the number of bytes consumed is not checked (the property does not state it)".into(),
        ]
    }
    fn max_len(&self) -> usize {
        96
    }
    fn cases(&self, tier: Tier) -> u64 {
        match tier {
            Tier::Quick => 1_000_000,
            Tier::Thorough => 30_000_000,
        }
    }
    fn both_profiles(&self) -> bool {
        true
    }
    fn exhaustive_note(&self, tier: Tier) -> Option<String> {
        Some(format!(
            "all terminated (S)LEB128 strings of length <= {} enumerated completely for nat and int",
            if tier == Tier::Quick { 2 } else { 3 }
        ))
    }
    fn direct_case(&self, data: &[u8], ctx: &mut Ctx) -> Outcome {
        run_direct(data, ctx)
    }
    fn enumerate(&self, tier: Tier, shard: u64, nshards: u64, emit: &mut dyn FnMut(&[u8]) -> bool) {
        let maxlen = if tier == Tier::Quick { 2 } else { 3 };
        let mut idx: u64 = 0;
        let mut go = |data: &[u8], idx: &mut u64| -> bool {
            *idx += 1;
            if *idx % nshards != shard {
                return true;
            }
            emit(data)
        };
        // exhaustive short strings
        for len in 1..=maxlen {
            let total = 128u64.pow(len as u32);
            for code in 0..total {
                let mut s = Vec::with_capacity(len + 1);
                let mut c = code;
                for i in 0..len {
                    let g = (c % 128) as u8;
                    c /= 128;
                    s.push(if i + 1 < len { g | 0x80 } else { g });
                }
                for tag in 0..2u8 {
                    let mut d = vec![tag];
                    d.extend_from_slice(&s);
                    if !go(&d, &mut idx) {
                        return;
                    }
                }
            }
        }
        // boundary families
        for &total_len in &BOUNDARY_LENGTHS {
            for &p in &PREFIX_PATTERNS {
                for fin in 0..128u8 {
                    for tag in 0..2u8 {
                        // minimal-length form
                        let mut base = vec![tag];
                        base.extend(std::iter::repeat(p | 0x80).take(total_len - 1));
                        let mut d = base.clone();
                        d.push(fin);
                        if !go(&d, &mut idx) {
                            return;
                        }
                        // padded forms: final group keeps continuation, then padding
                        for &j in &PAD_COUNTS {
                            let mut d = base.clone();
                            d.push(fin | 0x80);
                            d.extend(std::iter::repeat(0x80u8).take(j));
                            d.push(0x00);
                            if !go(&d, &mut idx) {
                                return;
                            }
                            if tag == 1 {
                                let mut d = base.clone();
                                d.push(fin | 0x80);
                                d.extend(std::iter::repeat(0xffu8).take(j));
                                d.push(0x7f);
                                if !go(&d, &mut idx) {
                                    return;
                                }
                            }
                        }
                    }
                }
            }
        }
        // integers around powers of two: encoders
        for k in 0..=200u32 {
            for d in -2i64..=2 {
                for neg in [false, true] {
                    let mut v = (BigInt::one() << k) + BigInt::from(d);
                    if neg {
                        v = -v;
                    }
                    let mut data = vec![2u8];
                    data.extend_from_slice(&rleb::sleb_encode(&v));
                    if !go(&data, &mut idx) {
                        return;
                    }
                }
            }
        }
    }
    fn one_case(&self, data: &[u8], ctx: &mut Ctx) -> Outcome {
        let mut e = Ent::new(data);
        let mode = e.below(7);
        let direct: Vec<u8> = match mode {
            0 | 1 => {
                // random terminated string
                let tag = e.below(2) as u8;
                let len = e.range(1, 40);
                let mut s = e.bytes_padded(len);
                for b in s.iter_mut() {
                    *b |= 0x80;
                }
                *s.last_mut().unwrap() &= 0x7f;
                let mut d = vec![tag];
                d.extend(s);
                d
            }
            2 => {
                // boundary: fill + random last groups
                let tag = e.below(2) as u8;
                let len = *e.pick(&BOUNDARY_LENGTHS);
                let p = *e.pick(&PREFIX_PATTERNS);
                let mut s: Vec<u8> = std::iter::repeat(p | 0x80).take(len).collect();
                let k = e.range(1, 3).min(len);
                for i in 0..k {
                    s[len - 1 - i] = e.u8() | 0x80;
                }
                s[len - 1] &= 0x7f;
                let mut d = vec![tag];
                d.extend(s);
                d
            }
            3 => {
                // padded encoding of a number
                let tag = e.below(2) as u8;
                let v = if e.bool() { near_pow2(&mut e) } else { BigInt::from(e.u64() as i64) };
                let mut s = if tag == 0 {
                    rleb::uleb_encode(&v.magnitude().clone())
                } else {
                    rleb::sleb_encode(&v)
                };
                let pad = e.range(1, 24);
                let neg = tag == 1 && v < BigInt::zero();
                *s.last_mut().unwrap() |= 0x80;
                for _ in 0..pad - 1 {
                    s.push(if neg { 0xff } else { 0x80 });
                }
                s.push(if neg { 0x7f } else { 0x00 });
                let mut d = vec![tag];
                d.extend(s);
                d
            }
            4 => {
                // unterminated
                let tag = e.below(2) as u8;
                let len = e.range(0, 30);
                let mut s = e.bytes_padded(len);
                for b in s.iter_mut() {
                    *b |= 0x80;
                }
                let mut d = vec![tag];
                d.extend(s);
                d
            }
            5 => {
                let v = near_pow2(&mut e);
                let mut d = vec![2u8];
                d.extend(rleb::sleb_encode(&v));
                d
            }
            _ => {
                let n = e.range(1, 32);
                let bytes = e.bytes_padded(n);
                let v = BigInt::from_signed_bytes_le(&bytes);
                let mut d = vec![2u8];
                d.extend(rleb::sleb_encode(&v));
                d
            }
        };
        run_direct(&direct, ctx)
    }
}
