//! C19 All binding generators are total, deterministic and closed on checked programs.

use crate::checks::c12::parse_and_check;
use crate::checks::c17::JS_DEF_NAMES;
use crate::engine::panics::guard;
use crate::engine::{digest_of, Check, Ctx, Failure, Outcome, Tier};
use crate::gen::prog::{gen_opts, gen_prog, Emitter, Prog};
use crate::gen::types::TypeCfg;
use crate::gen::Ent;
use crate::lexers::{balanced, lex, without_comments, Lang, T};
use crate::refmodel::rtype::{Lab, Ty};
use candid::types::{Type, TypeEnv};
use candid_parser::bindings::{javascript, motoko, rust, typescript};
use candid_parser::configs::Configs;
use candid_parser::syntax::IDLMergedProg;
use candid_parser::IDLProg;
use std::collections::BTreeSet;
use std::str::FromStr;

pub struct C19;

const BENIGN_DOCS: &[&str] = &["doc zero", "doc one", "doc two", "doc three", "doc four", "doc five", "doc six", "doc seven", "doc eight", "doc nine", "doc ten", "doc eleven"];
const HOSTILE_DOCS: &[&str] = &[
    "*/ export type Injected = any; /*",
    "/* open block",
    "// nested line",
    "\"quote\" 'single' `backtick` ${template}",
    "back\\slash \\",
    "cr\rinside",
    "sep\u{2028}arator \u{2029}",
    "*/",
    "*\\/ */ }} ]] ))",
    "{- haskell -} --> <!-- html -->",
    "\"\"\" triple \"\"\" #[attr] #![inner]",
    "*/ } public type Injected = Any; /*",
];

pub const DEF_NAMES_MIXED: &[&str] = &[
    "A", "B", "C", "List", "Tree", "node", "t", "default", "class", "function", "type_", "Self", "self", "crate", "super", "actor", "module",
    "Nat", "Text", "Principal", "Option", "Vec", "String", "Box", "Result", "async", "await", "shared", "IDL", "default_",
    "fn", "struct", "enum", "impl", "let", "mod", "match", "Service", "Func", "Ok", "Err",
];

struct Outputs {
    js: String,
    ts: String,
    mo: Option<String>,
    rs_call: String,
    rs_agent: String,
    rs_stub: String,
}

fn run_generators(text: &str, with_motoko: bool) -> Result<Outputs, Failure> {
    let (env, actor, _) = parse_and_check(text).map_err(|e| Failure::new("HARNESS-generated-program-rejected", format!("{e}\n{text}")))?;
    let gen = |which: &str| -> Result<String, Failure> {
        let env: &TypeEnv = &env;
        let actor: &Option<Type> = &actor;
        let r = guard(|| {
            let ast: IDLProg = text.parse().expect("parsed before");
            let prog = IDLMergedProg::new(ast);
            match which {
                "js" => javascript::compile(env, actor),
                "ts" => typescript::compile(env, actor, &prog),
                "mo" => motoko::compile(env, actor, &prog),
                target => {
                    let cfg = rust::Config::new(Configs::from_str("").unwrap());
                    let mut ext = rust::ExternalConfig::default();
                    ext.0.insert("target".to_string(), target.to_string());
                    rust::compile(&cfg, env, actor, &prog, ext).0
                }
            }
        });
        r.map_err(|p| Failure::new(format!("{which}:{}", p.sig()), format!("generator {which} panicked at {}: {}\n{text}", p.location, p.message)))
    };
    Ok(Outputs {
        js: gen("js")?,
        ts: gen("ts")?,
        mo: if with_motoko { Some(gen("mo")?) } else { None },
        rs_call: gen("canister_call")?,
        rs_agent: gen("agent")?,
        rs_stub: gen("stub")?,
    })
}

fn lexed(which: &str, lang: Lang, out: &str, text: &str) -> Result<Vec<T>, Failure> {
    let toks = lex(lang, out).map_err(|e| {
        Failure::new(
            format!("{which}:lexically-broken-output"),
            format!("{e}\n--- program ---\n{text}\n--- {which} output ---\n{out}"),
        )
    })?;
    balanced(&toks).map_err(|e| Failure::new(format!("{which}:unbalanced-output"), format!("{e}\n--- program ---\n{text}\n--- {which} output ---\n{out}")))?;
    Ok(toks)
}

/// Names collected from the program: labels, method names.
fn program_names(p: &Prog) -> BTreeSet<String> {
    fn walk(t: &Ty, out: &mut BTreeSet<String>) {
        match t {
            Ty::Opt(x) | Ty::Vec(x) => walk(x, out),
            Ty::Record(fs) | Ty::Variant(fs) => {
                for (l, x) in fs {
                    if let Lab::Named(n) = l {
                        out.insert(n.clone());
                    }
                    walk(x, out);
                }
            }
            Ty::Func { args, rets, .. } => {
                for x in args.iter().chain(rets) {
                    walk(x, out)
                }
            }
            Ty::Service(ms) => {
                for (n, x) in ms {
                    out.insert(n.clone());
                    walk(x, out);
                }
            }
            Ty::Class(a, x) => {
                for y in a {
                    walk(y, out)
                }
                walk(x, out)
            }
            _ => {}
        }
    }
    let mut out = BTreeSet::new();
    for (_, t) in &p.env.defs {
        walk(t, &mut out);
    }
    if let Some(a) = &p.actor {
        walk(a, &mut out);
    }
    out
}

fn actor_methods(p: &Prog) -> Vec<String> {
    fn of(p: &Prog, t: &Ty, depth: usize) -> Vec<String> {
        match t {
            Ty::Service(ms) => ms.iter().map(|m| m.0.clone()).collect(),
            Ty::Class(_, x) => of(p, x, depth),
            Ty::Var(n) if depth < 20 => p.env.get(n).map(|b| of(p, &b.clone(), depth + 1)).unwrap_or_default(),
            _ => vec![],
        }
    }
    p.actor.as_ref().map(|a| of(p, a, 0)).unwrap_or_default()
}

const TS_BUILTINS: &[&str] = &[
    "import", "type", "Principal", "from", "ActorMethod", "IDL", "export", "interface", "extends", "declare", "const", "typeof", "args",
    "null", "boolean", "bigint", "number", "string", "any", "never", "undefined", "Uint8Array", "Uint16Array", "Uint32Array",
    "BigUint64Array", "Int8Array", "Int16Array", "Int32Array", "BigInt64Array", "Float32Array", "Float64Array", "Array", "idlFactory",
    "init", "InterfaceFactory", "Type", "_SERVICE",
];
const MO_BUILTINS: &[&str] = &[
    "module", "public", "type", "actor", "shared", "query", "composite", "async", "func", "Nat", "Int", "Nat8", "Nat16", "Nat32", "Nat64",
    "Int8", "Int16", "Int32", "Int64", "Float", "Float32", "Float64", "Bool", "Text", "Blob", "Null", "Any", "None", "Principal", "Self", "class",
];

/// Defined names ⊇ referenced names.
fn name_closure(which: &str, toks: &[T], def_markers: &[&[&str]], builtins: &[&str]) -> Result<(), String> {
    let toks = without_comments(toks);
    let mut defined: BTreeSet<String> = BTreeSet::new();
    let mut def_pos: BTreeSet<usize> = BTreeSet::new();
    for i in 0..toks.len() {
        for m in def_markers {
            if i + m.len() < toks.len() && m.iter().enumerate().all(|(k, w)| toks[i + k] == T::Ident(w.to_string())) {
                if let T::Ident(n) = &toks[i + m.len()] {
                    if !defined.insert(n.clone()) && (which == "ts" || which == "mo") {
                        return Err(format!("{n} is defined twice"));
                    }
                    def_pos.insert(i + m.len());
                }
            }
        }
    }
    for (i, t) in toks.iter().enumerate() {
        if let T::Ident(n) = t {
            if def_pos.contains(&i) || builtins.contains(&n.as_str()) {
                continue;
            }
            // object / record keys and labelled parameters
            let next = toks.get(i + 1);
            if matches!(next, Some(T::Punct(':'))) || (matches!(next, Some(T::Punct('?'))) && matches!(toks.get(i + 2), Some(T::Punct(':')))) {
                continue;
            }
            // Motoko variant tags #name, member access a.b
            if i > 0 && matches!(toks[i - 1], T::Punct('#') | T::Punct('.')) {
                continue;
            }
            if !defined.contains(n) {
                return Err(format!("{n} is referenced but not defined"));
            }
        }
    }
    Ok(())
}

/// Keys (string or identifier followed by ':') at depth 1 of the block that follows `start` tokens.
/// Keys of the actor type that `public type Self` denotes in a Motoko binding:
/// `Self = actor {..}`, `Self = (args) -> async actor {..}`, `Self = X` or
/// `Self = (args) -> async X` with `type X = actor {..}`.
fn motoko_self_keys(toks: &[T]) -> Option<Vec<String>> {
    let toks = without_comments(toks);
    let start = [T::Ident("type".into()), T::Ident("Self".into()), T::Punct('=')];
    let pos = (0..toks.len()).find(|i| *i + 3 <= toks.len() && toks[*i..*i + 3] == start)?;
    // the definition runs to the `;` or `}` that closes it at nesting depth 0
    let mut depth = 0i32;
    let mut end = pos + 3;
    while end < toks.len() {
        match &toks[end] {
            T::Punct('{') | T::Punct('(') | T::Punct('[') => depth += 1,
            T::Punct('}') | T::Punct(')') | T::Punct(']') => {
                if depth == 0 {
                    break;
                }
                depth -= 1;
            }
            T::Punct(';') if depth == 0 => break,
            _ => {}
        }
        end += 1;
    }
    let body = &toks[pos + 3..end];
    // last top-level `actor {` in the definition, if any
    let mut depth = 0i32;
    let mut actor_at = None;
    for (i, t) in body.iter().enumerate() {
        match t {
            T::Punct('{') | T::Punct('(') | T::Punct('[') => depth += 1,
            T::Punct('}') | T::Punct(')') | T::Punct(']') => depth -= 1,
            T::Ident(a) if a == "actor" && depth == 0 && body.get(i + 1) == Some(&T::Punct('{')) => actor_at = Some(i),
            _ => {}
        }
    }
    if let Some(i) = actor_at {
        let mut v = vec![T::Ident("type".into()), T::Ident("Self".into()), T::Punct('=')];
        v.extend_from_slice(&body[..=i]);
        return block_keys(&toks, &v);
    }
    match body.last() {
        Some(T::Ident(x)) => block_keys(&toks, &[T::Ident("type".into()), T::Ident(x.clone()), T::Punct('='), T::Ident("actor".into())]),
        _ => None,
    }
}

fn block_keys(toks: &[T], start: &[T]) -> Option<Vec<String>> {
    let toks = without_comments(toks);
    let pos = (0..toks.len()).find(|i| *i + start.len() <= toks.len() && toks[*i..*i + start.len()] == *start)?;
    let mut i = pos + start.len();
    while i < toks.len() && toks[i] != T::Punct('{') {
        if toks[i] == T::Punct(';') {
            return None;
        }
        i += 1;
    }
    let mut depth = 0;
    let mut keys = vec![];
    let mut angle = 0i32;
    while i < toks.len() {
        match &toks[i] {
            T::Punct('{') | T::Punct('(') | T::Punct('[') => depth += 1,
            T::Punct('}') | T::Punct(')') | T::Punct(']') => {
                depth -= 1;
                if depth == 0 {
                    return Some(keys);
                }
            }
            T::Punct('<') => angle += 1,
            T::Punct('>') => angle -= 1,
            T::Str(s) | T::Ident(s) if depth == 1 && angle <= 0 && matches!(toks.get(i + 1), Some(T::Punct(':'))) => keys.push(s.clone()),
            _ => {}
        }
        i += 1;
    }
    None
}

impl Check for C19 {
    fn id(&self) -> &'static str {
        "C19"
    }
    fn rule(&self) -> &'static str {
        "A case is a generated type-checked program (with or without a main service, with or without init args; definitions named from a pool of target-language keywords and built-in type names; field labels from the full pools; method names identifiers including every target's keywords) printed twice with identical syntax choices: once with benign doc comments and once with hostile doc comments (comment terminators and openers, quotes, back-ticks, ${..}, backslashes, CR, U+2028/9, attribute syntax). Oracle for javascript, typescript, motoko and rust (canister_call, agent and stub targets): the generator returns without panicking; two runs give identical output; the output lexes under the target's lexical grammar (strings, template strings, line/block/nested comments terminate; no control characters outside them; for Rust no bare CR in doc comments) and brackets balance; with hostile instead of benign doc text the token stream outside comments is identical (no injection); for TypeScript and Motoko every referenced type name is defined (or built in) and none is defined twice; every method of the main service occurs exactly once as a key of the emitted service type; every string literal in the TypeScript/JavaScript output decodes to a name of the program (or a fixed library string). Non-trivial = the program has doc comments or a name needing quoting/escaping, and >= 2 definitions; distinct = distinct program."
    }
    fn assumptions(&self) -> Vec<String> {
        vec![
            "no TypeScript or Motoko compiler exists in the sandbox: closure is judged lexically and by name sets; Rust output is compiled in C18 and JavaScript evaluated in C17".into(),
            "Motoko requires identifier method names (documented precondition), so generated method names are identifiers".into(),
        ]
    }
    fn max_len(&self) -> usize {
        768
    }
    fn cases(&self, tier: Tier) -> u64 {
        match tier {
            Tier::Quick => 50_000,
            Tier::Thorough => 2_000_000,
        }
    }
    fn one_case(&self, data: &[u8], ctx: &mut Ctx) -> Outcome {
        let mut e = Ent::new(data);
        let mut cfg = TypeCfg::default();
        cfg.odd_labels = e.ratio(1, 2);
        cfg.ident_methods = true;
        cfg.max_defs = 5;
        cfg.def_names = match e.below(3) {
            0 => JS_DEF_NAMES,
            1 => DEF_NAMES_MIXED,
            _ => crate::gen::types::DEF_NAMES,
        };
        let (p, _) = gen_prog(&mut e, &cfg);
        // two printings with the same syntax choices and different doc text
        let mut opts = gen_opts(&mut e);
        opts.docs = e.ratio(3, 4);
        let rest = e.rest();
        let print = |pool: &[&str]| -> String {
            let mut o = opts.clone();
            o.doc_pool = pool.iter().map(|s| s.to_string()).collect();
            let mut e2 = Ent::new(&rest);
            Emitter { e: &mut e2, o }.prog(&p)
        };
        let text_a = print(BENIGN_DOCS);
        let text_b = print(HOSTILE_DOCS);
        if opts.docs && text_a != text_b {
            ctx.class("with-doc-comments");
        }
        match &p.actor {
            None => ctx.class("no-service"),
            Some(Ty::Class(..)) => ctx.class("service-constructor"),
            Some(_) => ctx.class("service"),
        }
        let oa = match run_generators(&text_a, true) {
            Ok(o) => o,
            Err(f) => return Outcome::Fail(f),
        };
        // determinism
        match run_generators(&text_a, true) {
            Ok(o2) => {
                for (w, x, y) in [("js", &oa.js, &o2.js), ("ts", &oa.ts, &o2.ts), ("rs", &oa.rs_call, &o2.rs_call), ("rs-agent", &oa.rs_agent, &o2.rs_agent), ("rs-stub", &oa.rs_stub, &o2.rs_stub)] {
                    if x != y {
                        return Outcome::Fail(Failure::new(format!("{w}:not-deterministic"), format!("{text_a}\n--- first ---\n{x}\n--- second ---\n{y}")));
                    }
                }
                if oa.mo != o2.mo {
                    return Outcome::Fail(Failure::new("mo:not-deterministic", text_a.clone()));
                }
            }
            Err(f) => return Outcome::Fail(f),
        }
        let ob = match run_generators(&text_b, true) {
            Ok(o) => o,
            Err(f) => return Outcome::Fail(f),
        };
        let names = program_names(&p);
        let methods = actor_methods(&p);
        let targets: Vec<(&str, Lang, &String, &String)> = vec![
            ("js", Lang::TypeScript, &oa.js, &ob.js),
            ("ts", Lang::TypeScript, &oa.ts, &ob.ts),
            ("mo", Lang::Motoko, oa.mo.as_ref().unwrap(), ob.mo.as_ref().unwrap()),
            ("rs", Lang::Rust, &oa.rs_call, &ob.rs_call),
            ("rs-agent", Lang::Rust, &oa.rs_agent, &ob.rs_agent),
            ("rs-stub", Lang::Rust, &oa.rs_stub, &ob.rs_stub),
        ];
        for (which, lang, out_a, out_b) in targets {
            let ta = match lexed(which, lang, out_a, &text_a) {
                Ok(t) => t,
                Err(f) => return Outcome::Fail(f),
            };
            let tb = match lexed(which, lang, out_b, &text_b) {
                Ok(t) => t,
                Err(f) => return Outcome::Fail(f),
            };
            // doc text must not change anything outside comments; the stub target embeds the
            // .did text itself (comments included) in a string, which is compared after stripping
            if which != "rs-stub" && without_comments(&ta) != without_comments(&tb) {
                return Outcome::Fail(Failure::new(
                    format!("{which}:doc-comment-injection"),
                    format!("token streams outside comments differ\n--- program (hostile docs) ---\n{text_b}\n--- {which} output ---\n{out_b}"),
                ));
            }
            if which == "ts" {
                if let Err(err) = name_closure("ts", &ta, &[&["export", "interface"], &["export", "type"]], TS_BUILTINS) {
                    return Outcome::Fail(Failure::new("ts:names-not-closed", format!("{err}\n--- program ---\n{text_a}\n--- output ---\n{out_a}")));
                }
            }
            if which == "mo" {
                if let Err(err) = name_closure("mo", &ta, &[&["public", "type"]], MO_BUILTINS) {
                    return Outcome::Fail(Failure::new("mo:names-not-closed", format!("{err}\n--- program ---\n{text_a}\n--- output ---\n{out_a}")));
                }
            }
            if which == "js" || which == "ts" {
                for t in without_comments(&ta) {
                    if let T::Str(s) = t {
                        let fixed = ["query", "oneway", "composite_query", "@icp-sdk/core/principal", "@icp-sdk/core/agent", "@icp-sdk/core/candid"];
                        if !names.contains(&s) && !fixed.contains(&s.as_str()) {
                            return Outcome::Fail(Failure::new(
                                format!("{which}:string-literal-is-not-a-program-name"),
                                format!("string literal {s:?}\n--- program ---\n{text_a}\n--- output ---\n{out_a}"),
                            ));
                        }
                    }
                }
            }
            // methods of the main service exactly once
            if p.actor.is_some() {
                let keys: Option<Vec<String>> = match which {
                    "ts" => {
                        let toks = without_comments(&ta);
                        // `_SERVICE extends X {}` delegates to interface X
                        let ext = (0..toks.len()).find_map(|i| {
                            if toks[i] == T::Ident("_SERVICE".into()) && toks.get(i + 1) == Some(&T::Ident("extends".into())) {
                                if let Some(T::Ident(x)) = toks.get(i + 2) {
                                    return Some(x.clone());
                                }
                            }
                            None
                        });
                        match ext {
                            Some(x) => block_keys(&ta, &[T::Ident("interface".into()), T::Ident(x)]),
                            None => block_keys(&ta, &[T::Ident("interface".into()), T::Ident("_SERVICE".into())]),
                        }
                    }
                    "mo" => motoko_self_keys(&ta),
                    _ => None,
                };
                if which == "mo" && keys.is_none() {
                    return Outcome::Fail(Failure::new(
                        "mo:service-type-not-found",
                        format!("no actor type reachable from `type Self`\n--- program ---\n{text_a}\n--- output ---\n{out_a}"),
                    ));
                }
                if let Some(keys) = keys {
                    // Motoko appends an underscore to a method that is a keyword or itself ends
                    // in an underscore: each method must own exactly one key, spelled m or m_
                    let (k, m) = if which == "mo" {
                        let mut left: Vec<String> = keys.clone();
                        let mut ms: Vec<String> = methods.clone();
                        ms.sort_by_key(|x| std::cmp::Reverse(x.len()));
                        let mut unmatched: Vec<String> = vec![];
                        for m in &ms {
                            let with = format!("{m}_");
                            if let Some(i) = left.iter().position(|k| *k == with).or_else(|| left.iter().position(|k| k == m)) {
                                left.remove(i);
                            } else {
                                unmatched.push(m.clone());
                            }
                        }
                        left.sort();
                        unmatched.sort();
                        (left, unmatched)
                    } else {
                        let mut k = keys.clone();
                        k.sort();
                        let mut m = methods.clone();
                        m.sort();
                        (k, m)
                    };
                    if k != m {
                        return Outcome::Fail(Failure::new(
                            format!("{which}:service-methods-differ"),
                            format!("keys {keys:?} vs methods {methods:?}\n--- program ---\n{text_a}\n--- output ---\n{out_a}"),
                        ));
                    }
                }
                if which == "js" {
                    // closure of the JavaScript module is decided by evaluating it under module
                    // rules (C17's interpreter): a name used before its declaration, declared
                    // twice or never declared is an evaluation error
                    let mut scratch = Ctx::new(ctx.tier, ctx.strict);
                    if let Outcome::Fail(fl) = crate::checks::c17::check_program(&text_a, &mut scratch) {
                        if fl.sig.starts_with("js:evaluation-error") || fl.sig.starts_with("js:lexical-error") {
                            return Outcome::Fail(Failure::new("js:names-not-closed", format!("{}\n--- program ---\n{text_a}", fl.msg)));
                        }
                    }
                    // every method name occurs as a string key
                    let strs: Vec<String> = without_comments(&ta).into_iter().filter_map(|t| if let T::Str(s) = t { Some(s) } else { None }).collect();
                    for m in &methods {
                        if !strs.contains(m) {
                            return Outcome::Fail(Failure::new("js:method-missing", format!("{m:?}\n{out_a}")));
                        }
                    }
                }
                if which == "rs" || which == "rs-agent" {
                    // every method is called by its original name exactly once
                    let toks = without_comments(&ta);
                    for m in &methods {
                        let n = toks.windows(2).filter(|w| matches!((&w[0], &w[1]), (T::Punct(','), T::Str(s)) if s == m)).count();
                        if n != 1 {
                            return Outcome::Fail(Failure::new(
                                format!("{which}:method-call-count"),
                                format!("method {m:?} is called {n} times\n--- program ---\n{text_a}\n--- output ---\n{out_a}"),
                            ));
                        }
                    }
                }
            }
        }
        let needs_escape = names.iter().any(|n| !crate::refmodel::rtype::is_plain_ident(n));
        if (text_a != text_b || needs_escape) && p.env.defs.len() >= 2 {
            ctx.nontrivial(digest_of(text_b.as_bytes()));
        }
        ctx.sample(|| format!("{text_b}\n--- typescript ---\n{}", ob.ts));
        Outcome::Pass
    }
}
