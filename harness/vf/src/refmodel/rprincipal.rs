//! Textual principal: lower-case RFC 4648 base32 (no padding) of
//! CRC32(bytes) big-endian ++ bytes, in dash-separated groups of five.

fn crc_table() -> [u32; 256] {
    let mut t = [0u32; 256];
    for i in 0..256u32 {
        let mut c = i;
        for _ in 0..8 {
            c = if c & 1 != 0 { 0xedb88320 ^ (c >> 1) } else { c >> 1 };
        }
        t[i as usize] = c;
    }
    t
}
pub fn crc32(data: &[u8]) -> u32 {
    let t = crc_table();
    let mut c = 0xffff_ffffu32;
    for b in data {
        c = t[((c ^ *b as u32) & 0xff) as usize] ^ (c >> 8);
    }
    c ^ 0xffff_ffff
}

pub const ALPHABET: &[u8; 32] = b"abcdefghijklmnopqrstuvwxyz234567";

pub fn base32_encode(data: &[u8]) -> String {
    let mut out = String::new();
    let mut acc: u32 = 0;
    let mut bits = 0;
    for b in data {
        acc = (acc << 8) | *b as u32;
        bits += 8;
        while bits >= 5 {
            bits -= 5;
            out.push(ALPHABET[((acc >> bits) & 31) as usize] as char);
        }
        acc &= (1 << bits) - 1;
    }
    if bits > 0 {
        out.push(ALPHABET[((acc << (5 - bits)) & 31) as usize] as char);
    }
    out
}

/// Strict decode of lower-case base32 without padding; None on any non-alphabet
/// character, impossible length, or non-zero trailing bits.
pub fn base32_decode(s: &str) -> Option<Vec<u8>> {
    let mut out = vec![];
    let mut acc: u32 = 0;
    let mut bits = 0;
    for ch in s.bytes() {
        let v = ALPHABET.iter().position(|a| *a == ch)? as u32;
        acc = (acc << 5) | v;
        bits += 5;
        if bits >= 8 {
            bits -= 8;
            out.push(((acc >> bits) & 0xff) as u8);
            acc &= (1 << bits) - 1;
        }
    }
    if acc != 0 {
        return None;
    }
    // lengths 1, 3, 6 mod 8 cannot arise from whole bytes
    if matches!(s.len() % 8, 1 | 3 | 6) {
        return None;
    }
    Some(out)
}

pub fn to_text(bytes: &[u8]) -> String {
    let mut data = crc32(bytes).to_be_bytes().to_vec();
    data.extend_from_slice(bytes);
    let b32 = base32_encode(&data);
    let mut out = String::new();
    for (i, c) in b32.chars().enumerate() {
        if i > 0 && i % 5 == 0 {
            out.push('-');
        }
        out.push(c);
    }
    out
}

/// Reference parser: Some(bytes) iff `text`, lower-cased (ASCII), is exactly the
/// canonical text of a principal of at most 29 bytes.
pub fn from_text(text: &str) -> Option<Vec<u8>> {
    if !text.is_ascii() {
        return None;
    }
    let lower = text.to_ascii_lowercase();
    let plain: String = lower.chars().filter(|c| *c != '-').collect();
    let data = base32_decode(&plain)?;
    if data.len() < 4 {
        return None;
    }
    let bytes = data[4..].to_vec();
    if bytes.len() > 29 {
        return None;
    }
    if to_text(&bytes) == lower {
        Some(bytes)
    } else {
        None
    }
}

#[cfg(test)]
mod tests {
    use super::*;
    #[test]
    fn known_vectors() {
        assert_eq!(crc32(b"123456789"), 0xcbf43926);
        assert_eq!(to_text(&[]), "aaaaa-aa");
        assert_eq!(to_text(&[4]), "2vxsx-fae");
        assert_eq!(to_text(&[0xab, 0xcd, 0x01]), "em77e-bvlzu-aq");
        assert_eq!(from_text("2vxsx-fae"), Some(vec![4]));
        assert_eq!(from_text("2VXSX-FAE"), Some(vec![4]));
        assert_eq!(from_text("2vxsxfae"), None);
        assert_eq!(base32_encode(b"foobar"), "mzxw6ytboi");
        assert_eq!(base32_decode("mzxw6ytboi").unwrap(), b"foobar");
    }
}
