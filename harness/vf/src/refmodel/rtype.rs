//! Types: a syntactic form (`Ty`, `Env`: what a .did file says, with names,
//! aliases and source order) and a semantic form (`Graph`: a rooted graph of
//! nodes with aliases resolved, fields keyed by numeric id and sorted).

use std::collections::BTreeMap;

/// hash(name) = sum utf8[i] * 223^(k-i) mod 2^32   (spec: Records, symbolic field ids)
pub fn rhash(name: &str) -> u32 {
    let mut h: u64 = 0;
    for b in name.as_bytes() {
        h = (h * 223 + *b as u64) % (1u64 << 32);
    }
    h as u32
}

#[derive(Clone, Copy, PartialEq, Eq, Hash, Debug, PartialOrd, Ord, serde::Serialize, serde::Deserialize)]
pub enum Prim {
    Null,
    Bool,
    Nat,
    Int,
    Nat8,
    Nat16,
    Nat32,
    Nat64,
    Int8,
    Int16,
    Int32,
    Int64,
    Float32,
    Float64,
    Text,
    Reserved,
    Empty,
    Principal,
}

pub const ALL_PRIMS: [Prim; 18] = [
    Prim::Null,
    Prim::Bool,
    Prim::Nat,
    Prim::Int,
    Prim::Nat8,
    Prim::Nat16,
    Prim::Nat32,
    Prim::Nat64,
    Prim::Int8,
    Prim::Int16,
    Prim::Int32,
    Prim::Int64,
    Prim::Float32,
    Prim::Float64,
    Prim::Text,
    Prim::Reserved,
    Prim::Empty,
    Prim::Principal,
];

impl Prim {
    pub fn name(self) -> &'static str {
        match self {
            Prim::Null => "null",
            Prim::Bool => "bool",
            Prim::Nat => "nat",
            Prim::Int => "int",
            Prim::Nat8 => "nat8",
            Prim::Nat16 => "nat16",
            Prim::Nat32 => "nat32",
            Prim::Nat64 => "nat64",
            Prim::Int8 => "int8",
            Prim::Int16 => "int16",
            Prim::Int32 => "int32",
            Prim::Int64 => "int64",
            Prim::Float32 => "float32",
            Prim::Float64 => "float64",
            Prim::Text => "text",
            Prim::Reserved => "reserved",
            Prim::Empty => "empty",
            Prim::Principal => "principal",
        }
    }
    /// Binary format opcode (spec: Binary Format, Types).
    pub fn opcode(self) -> i64 {
        match self {
            Prim::Null => -1,
            Prim::Bool => -2,
            Prim::Nat => -3,
            Prim::Int => -4,
            Prim::Nat8 => -5,
            Prim::Nat16 => -6,
            Prim::Nat32 => -7,
            Prim::Nat64 => -8,
            Prim::Int8 => -9,
            Prim::Int16 => -10,
            Prim::Int32 => -11,
            Prim::Int64 => -12,
            Prim::Float32 => -13,
            Prim::Float64 => -14,
            Prim::Text => -15,
            Prim::Reserved => -16,
            Prim::Empty => -17,
            Prim::Principal => -24,
        }
    }
    pub fn from_opcode(op: i64) -> Option<Prim> {
        ALL_PRIMS.iter().copied().find(|p| p.opcode() == op)
    }
}

#[derive(Clone, Copy, PartialEq, Eq, Hash, Debug, PartialOrd, Ord, serde::Serialize, serde::Deserialize)]
pub enum Mode {
    Query,
    Oneway,
    CompositeQuery,
}
impl Mode {
    pub fn name(self) -> &'static str {
        match self {
            Mode::Query => "query",
            Mode::Oneway => "oneway",
            Mode::CompositeQuery => "composite_query",
        }
    }
    pub fn wire(self) -> u8 {
        match self {
            Mode::Query => 1,
            Mode::Oneway => 2,
            Mode::CompositeQuery => 3,
        }
    }
}

#[derive(Clone, PartialEq, Eq, Hash, Debug, PartialOrd, Ord, serde::Serialize, serde::Deserialize)]
pub enum Lab {
    Id(u32),
    Named(String),
}
impl Lab {
    pub fn id(&self) -> u32 {
        match self {
            Lab::Id(n) => *n,
            Lab::Named(s) => rhash(s),
        }
    }
}

/// Syntactic type.
#[derive(Clone, PartialEq, Eq, Hash, Debug, serde::Serialize, serde::Deserialize)]
pub enum Ty {
    Prim(Prim),
    Var(String),
    Opt(Box<Ty>),
    Vec(Box<Ty>),
    Record(Vec<(Lab, Ty)>),
    Variant(Vec<(Lab, Ty)>),
    Func {
        args: Vec<Ty>,
        rets: Vec<Ty>,
        modes: Vec<Mode>,
    },
    Service(Vec<(String, Ty)>),
    Class(Vec<Ty>, Box<Ty>),
}

impl Ty {
    pub fn opt(t: Ty) -> Ty {
        Ty::Opt(Box::new(t))
    }
    pub fn vec(t: Ty) -> Ty {
        Ty::Vec(Box::new(t))
    }
    pub fn var(s: &str) -> Ty {
        Ty::Var(s.to_string())
    }
}

/// Named definitions, in source order.
#[derive(Clone, Debug, Default, PartialEq, Eq, serde::Serialize, serde::Deserialize)]
pub struct Env {
    pub defs: Vec<(String, Ty)>,
}
impl Env {
    pub fn get(&self, name: &str) -> Option<&Ty> {
        self.defs.iter().find(|(n, _)| n == name).map(|(_, t)| t)
    }
}

pub type TId = usize;

/// Semantic node. Fields sorted by id, methods by name.
#[derive(Clone, PartialEq, Eq, Hash, Debug)]
pub enum Node {
    Prim(Prim),
    Opt(TId),
    Vec(TId),
    Record(Vec<(u32, TId)>),
    Variant(Vec<(u32, TId)>),
    Func {
        args: Vec<TId>,
        rets: Vec<TId>,
        modes: Vec<Mode>,
    },
    Service(Vec<(String, TId)>),
    /// A future type in a wire table (opaque).
    Future,
    /// Placeholder while a definition is being built.
    Hole,
}

#[derive(Clone, Debug, Default)]
pub struct Graph {
    pub nodes: Vec<Node>,
    prims: BTreeMap<Prim, TId>,
}

#[derive(Debug, Clone, PartialEq, Eq)]
pub enum GraphErr {
    Unbound(String),
    VacuousCycle(String),
    DuplicateField(u32),
    DuplicateMethod(String),
    ClassNotAtTop,
}

impl Graph {
    pub fn new() -> Graph {
        Graph { nodes: vec![], prims: BTreeMap::new() }
    }
    pub fn add(&mut self, n: Node) -> TId {
        self.nodes.push(n);
        self.nodes.len() - 1
    }
    pub fn prim(&mut self, p: Prim) -> TId {
        // share primitive nodes
        if let Some(i) = self.prims.get(&p) {
            if self.nodes.get(*i) == Some(&Node::Prim(p)) {
                return *i;
            }
        }
        let i = self.add(Node::Prim(p));
        self.prims.insert(p, i);
        i
    }
    pub fn node(&self, t: TId) -> &Node {
        &self.nodes[t]
    }
    pub fn is_prim(&self, t: TId, p: Prim) -> bool {
        self.nodes[t] == Node::Prim(p)
    }
    /// null <: t  (t is null, an option or reserved)
    pub fn null_sub(&self, t: TId) -> bool {
        matches!(
            self.nodes[t],
            Node::Prim(Prim::Null) | Node::Prim(Prim::Reserved) | Node::Opt(_)
        )
    }
}

/// Builds graph nodes from syntactic types against an environment.
pub struct Builder<'a> {
    pub env: &'a Env,
    pub graph: Graph,
    /// definition name -> node (resolved through alias chains)
    pub named: BTreeMap<String, TId>,
    in_progress: Vec<String>,
}

impl<'a> Builder<'a> {
    pub fn new(env: &'a Env) -> Builder<'a> {
        Builder {
            env,
            graph: Graph::new(),
            named: BTreeMap::new(),
            in_progress: vec![],
        }
    }
    pub fn with_graph(env: &'a Env, graph: Graph) -> Builder<'a> {
        Builder {
            env,
            graph,
            named: BTreeMap::new(),
            in_progress: vec![],
        }
    }
    fn resolve_name(&mut self, name: &str) -> Result<TId, GraphErr> {
        if let Some(t) = self.named.get(name) {
            return Ok(*t);
        }
        // follow alias chains first: type A = B; type B = C; ...
        let mut cur = name.to_string();
        let mut seen = vec![cur.clone()];
        loop {
            let body = self
                .env
                .get(&cur)
                .ok_or_else(|| GraphErr::Unbound(cur.clone()))?;
            match body {
                Ty::Var(next) => {
                    if let Some(t) = self.named.get(next) {
                        let t = *t;
                        for s in seen {
                            self.named.insert(s, t);
                        }
                        return Ok(t);
                    }
                    if seen.contains(next) {
                        return Err(GraphErr::VacuousCycle(name.to_string()));
                    }
                    seen.push(next.clone());
                    cur = next.clone();
                }
                _ => break,
            }
        }
        // `cur` has a non-variable body: allocate its node first (knot), then fill
        let body = self.env.get(&cur).unwrap().clone();
        let id = match &body {
            Ty::Prim(p) => self.graph.prim(*p),
            _ => self.graph.add(Node::Hole),
        };
        for s in &seen {
            self.named.insert(s.clone(), id);
        }
        if !matches!(body, Ty::Prim(_)) {
            self.in_progress.push(cur.clone());
            let n = self.node_of(&body)?;
            self.in_progress.pop();
            self.graph.nodes[id] = n;
        }
        Ok(id)
    }
    fn fields(&mut self, fs: &[(Lab, Ty)]) -> Result<Vec<(u32, TId)>, GraphErr> {
        let mut out = vec![];
        for (l, t) in fs {
            out.push((l.id(), self.ty(t)?));
        }
        out.sort_by_key(|f| f.0);
        for w in out.windows(2) {
            if w[0].0 == w[1].0 {
                return Err(GraphErr::DuplicateField(w[0].0));
            }
        }
        Ok(out)
    }
    fn node_of(&mut self, t: &Ty) -> Result<Node, GraphErr> {
        Ok(match t {
            Ty::Prim(p) => Node::Prim(*p),
            Ty::Var(_) => unreachable!("handled by ty()"),
            Ty::Opt(t) => Node::Opt(self.ty(t)?),
            Ty::Vec(t) => Node::Vec(self.ty(t)?),
            Ty::Record(fs) => Node::Record(self.fields(fs)?),
            Ty::Variant(fs) => Node::Variant(self.fields(fs)?),
            Ty::Func { args, rets, modes } => {
                let mut a = vec![];
                for t in args {
                    a.push(self.ty(t)?);
                }
                let mut r = vec![];
                for t in rets {
                    r.push(self.ty(t)?);
                }
                let mut m = modes.clone();
                m.sort();
                Node::Func {
                    args: a,
                    rets: r,
                    modes: m,
                }
            }
            Ty::Service(ms) => {
                let mut out = vec![];
                for (n, t) in ms {
                    out.push((n.clone(), self.ty(t)?));
                }
                out.sort_by(|a, b| a.0.cmp(&b.0));
                for w in out.windows(2) {
                    if w[0].0 == w[1].0 {
                        return Err(GraphErr::DuplicateMethod(w[0].0.clone()));
                    }
                }
                Node::Service(out)
            }
            Ty::Class(_, _) => return Err(GraphErr::ClassNotAtTop),
        })
    }
    /// Node for a syntactic type.
    pub fn ty(&mut self, t: &Ty) -> Result<TId, GraphErr> {
        match t {
            Ty::Var(name) => self.resolve_name(name),
            Ty::Prim(p) => Ok(self.graph.prim(*p)),
            other => {
                let n = self.node_of(other)?;
                Ok(self.graph.add(n))
            }
        }
    }
}

/// Convenience: graph + roots for a list of types.
pub fn build(env: &Env, tys: &[Ty]) -> Result<(Graph, Vec<TId>), GraphErr> {
    let mut b = Builder::new(env);
    let mut roots = vec![];
    for t in tys {
        roots.push(b.ty(t)?);
    }
    Ok((b.graph, roots))
}

// ---------------------------------------------------------------------------
// Conversion to and from candid's public type representation (pattern matching
// on the public enum only).

use candid::types::{Field, FuncMode, Function, Label, Type, TypeEnv, TypeInner};

pub fn prim_to_candid(p: Prim) -> TypeInner {
    match p {
        Prim::Null => TypeInner::Null,
        Prim::Bool => TypeInner::Bool,
        Prim::Nat => TypeInner::Nat,
        Prim::Int => TypeInner::Int,
        Prim::Nat8 => TypeInner::Nat8,
        Prim::Nat16 => TypeInner::Nat16,
        Prim::Nat32 => TypeInner::Nat32,
        Prim::Nat64 => TypeInner::Nat64,
        Prim::Int8 => TypeInner::Int8,
        Prim::Int16 => TypeInner::Int16,
        Prim::Int32 => TypeInner::Int32,
        Prim::Int64 => TypeInner::Int64,
        Prim::Float32 => TypeInner::Float32,
        Prim::Float64 => TypeInner::Float64,
        Prim::Text => TypeInner::Text,
        Prim::Reserved => TypeInner::Reserved,
        Prim::Empty => TypeInner::Empty,
        Prim::Principal => TypeInner::Principal,
    }
}

pub fn mode_to_candid(m: Mode) -> FuncMode {
    match m {
        Mode::Query => FuncMode::Query,
        Mode::Oneway => FuncMode::Oneway,
        Mode::CompositeQuery => FuncMode::CompositeQuery,
    }
}

pub fn lab_to_candid(l: &Lab) -> Label {
    match l {
        Lab::Id(n) => Label::Id(*n),
        Lab::Named(s) => Label::Named(s.clone()),
    }
}

/// Syntactic type to candid `Type` (fields sorted by id, methods by name, as
/// every candid constructor path does).
pub fn to_candid(t: &Ty) -> Type {
    let fields = |fs: &[(Lab, Ty)]| -> Vec<Field> {
        let mut v: Vec<Field> = fs
            .iter()
            .map(|(l, t)| Field {
                id: lab_to_candid(l).into(),
                ty: to_candid(t),
            })
            .collect();
        v.sort_by_key(|f| f.id.get_id());
        v
    };
    match t {
        Ty::Prim(p) => prim_to_candid(*p),
        Ty::Var(s) => TypeInner::Var(s.clone()),
        Ty::Opt(t) => TypeInner::Opt(to_candid(t)),
        Ty::Vec(t) => TypeInner::Vec(to_candid(t)),
        Ty::Record(fs) => TypeInner::Record(fields(fs)),
        Ty::Variant(fs) => TypeInner::Variant(fields(fs)),
        Ty::Func { args, rets, modes } => TypeInner::Func(Function {
            modes: modes.iter().map(|m| mode_to_candid(*m)).collect(),
            args: args.iter().map(to_candid).collect(),
            rets: rets.iter().map(to_candid).collect(),
        }),
        Ty::Service(ms) => {
            let mut v: Vec<(String, Type)> = ms.iter().map(|(n, t)| (n.clone(), to_candid(t))).collect();
            v.sort_by(|a, b| a.0.cmp(&b.0));
            TypeInner::Service(v)
        }
        Ty::Class(args, t) => TypeInner::Class(args.iter().map(to_candid).collect(), to_candid(t)),
    }
    .into()
}

pub fn env_to_candid(env: &Env) -> TypeEnv {
    let mut e = TypeEnv::new();
    for (n, t) in &env.defs {
        e.0.insert(n.clone(), to_candid(t));
    }
    e
}

#[derive(Debug)]
pub enum FromCandidErr {
    Knot,
    Unknown,
    Future,
}

pub fn from_candid(t: &Type) -> Result<Ty, FromCandidErr> {
    let fields = |fs: &[Field]| -> Result<Vec<(Lab, Ty)>, FromCandidErr> {
        fs.iter()
            .map(|f| {
                let l = match f.id.as_ref() {
                    Label::Id(n) | Label::Unnamed(n) => Lab::Id(*n),
                    Label::Named(s) => Lab::Named(s.clone()),
                };
                Ok((l, from_candid(&f.ty)?))
            })
            .collect()
    };
    Ok(match t.as_ref() {
        TypeInner::Null => Ty::Prim(Prim::Null),
        TypeInner::Bool => Ty::Prim(Prim::Bool),
        TypeInner::Nat => Ty::Prim(Prim::Nat),
        TypeInner::Int => Ty::Prim(Prim::Int),
        TypeInner::Nat8 => Ty::Prim(Prim::Nat8),
        TypeInner::Nat16 => Ty::Prim(Prim::Nat16),
        TypeInner::Nat32 => Ty::Prim(Prim::Nat32),
        TypeInner::Nat64 => Ty::Prim(Prim::Nat64),
        TypeInner::Int8 => Ty::Prim(Prim::Int8),
        TypeInner::Int16 => Ty::Prim(Prim::Int16),
        TypeInner::Int32 => Ty::Prim(Prim::Int32),
        TypeInner::Int64 => Ty::Prim(Prim::Int64),
        TypeInner::Float32 => Ty::Prim(Prim::Float32),
        TypeInner::Float64 => Ty::Prim(Prim::Float64),
        TypeInner::Text => Ty::Prim(Prim::Text),
        TypeInner::Reserved => Ty::Prim(Prim::Reserved),
        TypeInner::Empty => Ty::Prim(Prim::Empty),
        TypeInner::Principal => Ty::Prim(Prim::Principal),
        // a knot left in an exported environment denotes the definition of that name
        TypeInner::Knot(id) => Ty::Var(id.to_string()),
        TypeInner::Unknown => return Err(FromCandidErr::Unknown),
        TypeInner::Future => return Err(FromCandidErr::Future),
        TypeInner::Var(s) => Ty::Var(s.clone()),
        TypeInner::Opt(t) => Ty::opt(from_candid(t)?),
        TypeInner::Vec(t) => Ty::vec(from_candid(t)?),
        TypeInner::Record(fs) => Ty::Record(fields(fs)?),
        TypeInner::Variant(fs) => Ty::Variant(fields(fs)?),
        TypeInner::Func(f) => Ty::Func {
            args: f.args.iter().map(from_candid).collect::<Result<_, _>>()?,
            rets: f.rets.iter().map(from_candid).collect::<Result<_, _>>()?,
            modes: f
                .modes
                .iter()
                .map(|m| match m {
                    FuncMode::Query => Mode::Query,
                    FuncMode::Oneway => Mode::Oneway,
                    FuncMode::CompositeQuery => Mode::CompositeQuery,
                })
                .collect(),
        },
        TypeInner::Service(ms) => Ty::Service(
            ms.iter()
                .map(|(n, t)| Ok((n.clone(), from_candid(t)?)))
                .collect::<Result<_, FromCandidErr>>()?,
        ),
        TypeInner::Class(args, t) => Ty::Class(
            args.iter().map(from_candid).collect::<Result<_, _>>()?,
            Box::new(from_candid(t)?),
        ),
    })
}

pub fn env_from_candid(env: &TypeEnv) -> Result<Env, FromCandidErr> {
    let mut e = Env::default();
    for (n, t) in &env.0 {
        e.defs.push((n.clone(), from_candid(t)?));
    }
    Ok(e)
}

// ---------------------------------------------------------------------------
// Own .did emitter (canonical style; the program generator has a richer one
// with shorthands).

pub const CANDID_KEYWORDS: [&str; 33] = [
    "import", "service", "func", "type", "opt", "vec", "record", "variant", "blob", "principal", "nat", "nat8",
    "nat16", "nat32", "nat64", "int", "int8", "int16", "int32", "int64", "float32", "float64", "bool", "text",
    "null", "reserved", "empty", "oneway", "query", "composite_query", "true", "false", "principal",
];

pub fn is_plain_ident(s: &str) -> bool {
    let mut cs = s.chars();
    match cs.next() {
        Some(c) if c.is_ascii_alphabetic() || c == '_' => {}
        _ => return false,
    }
    cs.all(|c| c.is_ascii_alphanumeric() || c == '_') && !CANDID_KEYWORDS.contains(&s)
}

/// Text literal with escapes the Candid lexer is specified to read:
/// \" \\ \n \r \t \' and \u{hex}; everything else printable is literal.
pub fn quote_text(s: &str) -> String {
    let mut o = String::from("\"");
    for c in s.chars() {
        match c {
            '"' => o.push_str("\\\""),
            '\\' => o.push_str("\\\\"),
            '\n' => o.push_str("\\n"),
            '\r' => o.push_str("\\r"),
            '\t' => o.push_str("\\t"),
            c if (c as u32) < 0x20 || c as u32 == 0x7f => o.push_str(&format!("\\u{{{:x}}}", c as u32)),
            c => o.push(c),
        }
    }
    o.push('"');
    o
}

pub fn emit_name(s: &str) -> String {
    if is_plain_ident(s) {
        s.to_string()
    } else {
        quote_text(s)
    }
}

pub fn emit_lab(l: &Lab) -> String {
    match l {
        Lab::Id(n) => n.to_string(),
        Lab::Named(s) => emit_name(s),
    }
}

pub fn emit_ty(t: &Ty) -> String {
    match t {
        Ty::Prim(p) => p.name().to_string(),
        Ty::Var(s) => emit_var(s),
        Ty::Opt(t) => format!("opt {}", emit_ty(t)),
        Ty::Vec(t) => format!("vec {}", emit_ty(t)),
        Ty::Record(fs) => format!(
            "record {{ {} }}",
            fs.iter().map(|(l, t)| format!("{} : {}", emit_lab(l), emit_ty(t))).collect::<Vec<_>>().join("; ")
        ),
        Ty::Variant(fs) => format!(
            "variant {{ {} }}",
            fs.iter().map(|(l, t)| format!("{} : {}", emit_lab(l), emit_ty(t))).collect::<Vec<_>>().join("; ")
        ),
        Ty::Func { .. } => format!("func {}", emit_func_sig(t)),
        Ty::Service(ms) => format!("service {}", emit_service_body(ms)),
        Ty::Class(args, t) => format!(
            "({}) -> {}",
            args.iter().map(emit_ty).collect::<Vec<_>>().join(", "),
            match t.as_ref() {
                Ty::Service(ms) => emit_service_body(ms),
                other => emit_ty(other),
            }
        ),
    }
}

/// Type variable names: identifiers are bare; the grammar has no quoted form
/// for type names, so generators only use identifier names for definitions.
pub fn emit_var(s: &str) -> String {
    s.to_string()
}

pub fn emit_func_sig(t: &Ty) -> String {
    match t {
        Ty::Func { args, rets, modes } => {
            let mut s = format!(
                "({}) -> ({})",
                args.iter().map(emit_ty).collect::<Vec<_>>().join(", "),
                rets.iter().map(emit_ty).collect::<Vec<_>>().join(", ")
            );
            for m in modes {
                s.push(' ');
                s.push_str(m.name());
            }
            s
        }
        other => emit_ty(other),
    }
}

pub fn emit_service_body(ms: &[(String, Ty)]) -> String {
    format!(
        "{{ {} }}",
        ms.iter()
            .map(|(n, t)| format!(
                "{} : {}",
                emit_name(n),
                match t {
                    Ty::Func { .. } => emit_func_sig(t),
                    other => emit_ty(other),
                }
            ))
            .collect::<Vec<_>>()
            .join("; ")
    )
}

pub fn emit_env(env: &Env) -> String {
    let mut s = String::new();
    for (n, t) in &env.defs {
        s.push_str(&format!("type {} = {};\n", emit_var(n), emit_ty(t)));
    }
    s
}

pub fn emit_prog(env: &Env, actor: Option<&Ty>) -> String {
    let mut s = emit_env(env);
    if let Some(a) = actor {
        match a {
            Ty::Service(ms) => s.push_str(&format!("service : {}\n", emit_service_body(ms))),
            Ty::Class(..) => s.push_str(&format!("service : {}\n", emit_ty(a))),
            other => s.push_str(&format!("service : {}\n", emit_ty(other))),
        }
    }
    s
}

/// Render a graph node as a finite description (for samples / messages).
pub fn show_node(g: &Graph, t: TId, depth: usize) -> String {
    if depth == 0 {
        return format!("#{t}");
    }
    match &g.nodes[t] {
        Node::Prim(p) => p.name().to_string(),
        Node::Opt(t) => format!("opt {}", show_node(g, *t, depth - 1)),
        Node::Vec(t) => format!("vec {}", show_node(g, *t, depth - 1)),
        Node::Record(fs) => format!(
            "record {{{}}}",
            fs.iter().map(|(i, t)| format!("{}:{}", i, show_node(g, *t, depth - 1))).collect::<Vec<_>>().join("; ")
        ),
        Node::Variant(fs) => format!(
            "variant {{{}}}",
            fs.iter().map(|(i, t)| format!("{}:{}", i, show_node(g, *t, depth - 1))).collect::<Vec<_>>().join("; ")
        ),
        Node::Func { args, rets, modes } => format!(
            "func ({}) -> ({}){}",
            args.iter().map(|t| show_node(g, *t, depth - 1)).collect::<Vec<_>>().join(", "),
            rets.iter().map(|t| show_node(g, *t, depth - 1)).collect::<Vec<_>>().join(", "),
            modes.iter().map(|m| format!(" {}", m.name())).collect::<String>()
        ),
        Node::Service(ms) => format!(
            "service {{{}}}",
            ms.iter().map(|(n, t)| format!("{:?}:{}", n, show_node(g, *t, depth - 1))).collect::<Vec<_>>().join("; ")
        ),
        Node::Future => "future".into(),
        Node::Hole => "hole".into(),
    }
}
