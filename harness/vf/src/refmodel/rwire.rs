//! Binary format (spec: Binary Format): parser and encoder for
//! B(kv* : t*) = "DIDL" T*(comptype*) I*(datatype*) M(kv* : datatype*).

use super::rleb;
use super::rtype::{Graph, Mode, Node, Prim, TId};
use super::rval::RVal;
use num_bigint::{BigInt, BigUint};
use num_traits::ToPrimitive;

#[derive(Debug, Clone, PartialEq, Eq)]
pub enum WErr {
    /// Not a well-formed message per the spec.
    Malformed(&'static str),
    /// Documented implementation limit exceeded (table size, principal length).
    Limit(&'static str),
    /// The spec does not settle it (or the implementation documents a choice).
    Unspecified(&'static str),
}

pub const MAX_TABLE: u64 = 10_000;
pub const MAX_DEPTH: usize = 400;
pub const MAX_VEC_LEN: u64 = 2_000_000;

pub struct Reader<'a> {
    pub b: &'a [u8],
    pub pos: usize,
    /// some LEB128 number in a structural position was not minimal
    pub nonminimal: bool,
    /// some nat/int value was not minimal
    pub nonminimal_value: bool,
}

impl<'a> Reader<'a> {
    pub fn new(b: &'a [u8]) -> Reader<'a> {
        Reader {
            b,
            pos: 0,
            nonminimal: false,
            nonminimal_value: false,
        }
    }
    fn rest(&self) -> &'a [u8] {
        &self.b[self.pos.min(self.b.len())..]
    }
    fn byte(&mut self) -> Result<u8, WErr> {
        let v = *self.b.get(self.pos).ok_or(WErr::Malformed("truncated"))?;
        self.pos += 1;
        Ok(v)
    }
    fn take(&mut self, n: usize) -> Result<&'a [u8], WErr> {
        if n > self.b.len() - self.pos.min(self.b.len()) {
            return Err(WErr::Malformed("truncated"));
        }
        let s = &self.b[self.pos..self.pos + n];
        self.pos += n;
        Ok(s)
    }
    fn uleb_big(&mut self) -> Result<(BigUint, bool), WErr> {
        let (v, n) = rleb::uleb_decode(self.rest()).ok_or(WErr::Malformed("truncated-leb"))?;
        let minimal = rleb::uleb_encode(&v).len() == n;
        self.pos += n;
        Ok((v, minimal))
    }
    fn sleb_big(&mut self) -> Result<(BigInt, bool), WErr> {
        let (v, n) = rleb::sleb_decode(self.rest()).ok_or(WErr::Malformed("truncated-leb"))?;
        let minimal = rleb::sleb_encode(&v).len() == n;
        self.pos += n;
        Ok((v, minimal))
    }
    /// structural unsigned number
    fn uleb(&mut self) -> Result<u64, WErr> {
        let (v, minimal) = self.uleb_big()?;
        if !minimal {
            self.nonminimal = true;
        }
        v.to_u64().ok_or(WErr::Malformed("count-out-of-range"))
    }
    fn sleb(&mut self) -> Result<i64, WErr> {
        let (v, minimal) = self.sleb_big()?;
        if !minimal {
            self.nonminimal = true;
        }
        v.to_i64().ok_or(WErr::Malformed("opcode-out-of-range"))
    }
}

/// Entry of the wire type table, with datatype references still as numbers
/// (>= 0 table index, < 0 primitive opcode).
#[derive(Debug, Clone, PartialEq, Eq)]
pub enum Entry {
    Opt(i64),
    Vec(i64),
    Record(Vec<(u32, i64)>),
    Variant(Vec<(u32, i64)>),
    Func { args: Vec<i64>, rets: Vec<i64>, modes: Vec<u8> },
    Service(Vec<(String, i64)>),
    Future(i64, Vec<u8>),
}

#[derive(Debug, Clone)]
pub struct Header {
    pub table: Vec<Entry>,
    pub args: Vec<i64>,
    pub value_start: usize,
    pub nonminimal: bool,
}

fn dataref(r: &mut Reader, n: u64) -> Result<i64, WErr> {
    let v = r.sleb()?;
    if v >= 0 {
        if (v as u64) < n {
            Ok(v)
        } else {
            Err(WErr::Malformed("type-index-out-of-range"))
        }
    } else if Prim::from_opcode(v).is_some() {
        Ok(v)
    } else {
        Err(WErr::Malformed("bad-datatype-opcode"))
    }
}

fn count(r: &mut Reader) -> Result<u64, WErr> {
    let n = r.uleb()?;
    // every element needs at least one byte
    if n > (r.b.len() - r.pos.min(r.b.len())) as u64 {
        return Err(WErr::Malformed("count-exceeds-input"));
    }
    Ok(n)
}

pub fn parse_header(b: &[u8]) -> Result<Header, WErr> {
    let mut r = Reader::new(b);
    if r.take(4).map_err(|_| WErr::Malformed("magic"))? != b"DIDL" {
        return Err(WErr::Malformed("magic"));
    }
    let n = r.uleb()?;
    if n > MAX_TABLE {
        return Err(WErr::Limit("type-table-size"));
    }
    let mut table = Vec::new();
    for _ in 0..n {
        let op = r.sleb()?;
        let e = match op {
            -18 => Entry::Opt(dataref(&mut r, n)?),
            -19 => Entry::Vec(dataref(&mut r, n)?),
            -20 | -21 => {
                let c = count(&mut r)?;
                let mut fs: Vec<(u32, i64)> = vec![];
                for _ in 0..c {
                    let id = r.uleb()?;
                    if id > u32::MAX as u64 {
                        return Err(WErr::Malformed("field-id-out-of-range"));
                    }
                    let t = dataref(&mut r, n)?;
                    if let Some(last) = fs.last() {
                        if last.0 >= id as u32 {
                            return Err(WErr::Malformed("field-ids-not-ascending"));
                        }
                    }
                    fs.push((id as u32, t));
                }
                if op == -20 {
                    Entry::Record(fs)
                } else {
                    Entry::Variant(fs)
                }
            }
            -22 => {
                let c = count(&mut r)?;
                let mut args = vec![];
                for _ in 0..c {
                    args.push(dataref(&mut r, n)?);
                }
                let c = count(&mut r)?;
                let mut rets = vec![];
                for _ in 0..c {
                    rets.push(dataref(&mut r, n)?);
                }
                let c = count(&mut r)?;
                let mut modes = vec![];
                for _ in 0..c {
                    let m = r.byte()?;
                    if !(1..=3).contains(&m) {
                        return Err(WErr::Malformed("unknown-annotation"));
                    }
                    modes.push(m);
                }
                Entry::Func { args, rets, modes }
            }
            -23 => {
                let c = count(&mut r)?;
                let mut ms: Vec<(String, i64)> = vec![];
                for _ in 0..c {
                    let l = count(&mut r)?;
                    let name = std::str::from_utf8(r.take(l as usize)?)
                        .map_err(|_| WErr::Malformed("method-name-utf8"))?
                        .to_string();
                    let t = dataref(&mut r, n)?;
                    if let Some(last) = ms.last() {
                        if last.0.as_bytes() >= name.as_bytes() {
                            return Err(WErr::Malformed("method-names-not-ascending"));
                        }
                    }
                    ms.push((name, t));
                }
                Entry::Service(ms)
            }
            op if op < -24 => {
                let l = count(&mut r)?;
                Entry::Future(op, r.take(l as usize)?.to_vec())
            }
            _ => return Err(WErr::Malformed("table-entry-not-composite")),
        };
        table.push(e);
    }
    // methods must denote function types
    for e in &table {
        if let Entry::Service(ms) = e {
            for (_, t) in ms {
                if *t < 0 || !matches!(table[*t as usize], Entry::Func { .. }) {
                    return Err(WErr::Malformed("method-not-function"));
                }
            }
        }
    }
    let c = count(&mut r)?;
    let mut args = vec![];
    for _ in 0..c {
        args.push(dataref(&mut r, n)?);
    }
    Ok(Header {
        table,
        args,
        value_start: r.pos,
        nonminimal: r.nonminimal,
    })
}

/// Wire table as a graph: node i is table entry i; primitive nodes follow.
pub struct WireTypes {
    pub graph: Graph,
    pub args: Vec<TId>,
}

pub fn header_graph(h: &Header) -> WireTypes {
    let mut g = Graph::new();
    for _ in &h.table {
        g.add(Node::Hole);
    }
    fn r(g: &mut Graph, x: i64) -> TId {
        if x >= 0 {
            x as usize
        } else {
            g.prim(Prim::from_opcode(x).unwrap())
        }
    }
    for (i, e) in h.table.iter().enumerate() {
        let n = match e {
            Entry::Opt(t) => Node::Opt(r(&mut g, *t)),
            Entry::Vec(t) => Node::Vec(r(&mut g, *t)),
            Entry::Record(fs) => Node::Record(fs.iter().map(|(i, t)| (*i, r(&mut g, *t))).collect()),
            Entry::Variant(fs) => Node::Variant(fs.iter().map(|(i, t)| (*i, r(&mut g, *t))).collect()),
            Entry::Func { args, rets, modes } => Node::Func {
                args: args.iter().map(|t| r(&mut g, *t)).collect(),
                rets: rets.iter().map(|t| r(&mut g, *t)).collect(),
                modes: {
                    let mut m: Vec<Mode> = modes
                        .iter()
                        .map(|m| match m {
                            1 => Mode::Query,
                            2 => Mode::Oneway,
                            _ => Mode::CompositeQuery,
                        })
                        .collect();
                    m.sort();
                    m.dedup();
                    m
                },
            },
            Entry::Service(ms) => Node::Service(ms.iter().map(|(n, t)| (n.clone(), r(&mut g, *t))).collect()),
            Entry::Future(..) => Node::Future,
        };
        g.nodes[i] = n;
    }
    let args = h.args.iter().map(|t| r(&mut g, *t)).collect();
    WireTypes { graph: g, args }
}

fn principal_bytes(r: &mut Reader) -> Result<Vec<u8>, WErr> {
    match r.byte()? {
        1 => {}
        0 => return Err(WErr::Unspecified("opaque-reference")),
        _ => return Err(WErr::Malformed("reference-tag")),
    }
    let l = r.uleb()?;
    if l > 29 {
        // still must be present in the input to be a limit rather than truncation
        if l > (r.b.len() - r.pos.min(r.b.len())) as u64 {
            return Err(WErr::Malformed("truncated"));
        }
        return Err(WErr::Limit("principal-length"));
    }
    Ok(r.take(l as usize)?.to_vec())
}

pub fn decode_value(g: &Graph, t: TId, r: &mut Reader, depth: usize) -> Result<RVal, WErr> {
    if depth > MAX_DEPTH {
        return Err(WErr::Unspecified("depth"));
    }
    Ok(match &g.nodes[t] {
        Node::Prim(p) => match p {
            Prim::Null => RVal::Null,
            Prim::Reserved => RVal::Reserved,
            Prim::Empty => return Err(WErr::Malformed("value-of-empty")),
            Prim::Bool => match r.byte()? {
                0 => RVal::Bool(false),
                1 => RVal::Bool(true),
                _ => return Err(WErr::Malformed("bool")),
            },
            Prim::Nat => {
                let (v, m) = r.uleb_big()?;
                if !m {
                    r.nonminimal_value = true;
                }
                RVal::Nat(v)
            }
            Prim::Int => {
                let (v, m) = r.sleb_big()?;
                if !m {
                    r.nonminimal_value = true;
                }
                RVal::Int(v)
            }
            Prim::Nat8 => RVal::Nat8(r.byte()?),
            Prim::Nat16 => RVal::Nat16(u16::from_le_bytes(r.take(2)?.try_into().unwrap())),
            Prim::Nat32 => RVal::Nat32(u32::from_le_bytes(r.take(4)?.try_into().unwrap())),
            Prim::Nat64 => RVal::Nat64(u64::from_le_bytes(r.take(8)?.try_into().unwrap())),
            Prim::Int8 => RVal::Int8(r.byte()? as i8),
            Prim::Int16 => RVal::Int16(i16::from_le_bytes(r.take(2)?.try_into().unwrap())),
            Prim::Int32 => RVal::Int32(i32::from_le_bytes(r.take(4)?.try_into().unwrap())),
            Prim::Int64 => RVal::Int64(i64::from_le_bytes(r.take(8)?.try_into().unwrap())),
            Prim::Float32 => RVal::Float32(u32::from_le_bytes(r.take(4)?.try_into().unwrap())),
            Prim::Float64 => RVal::Float64(u64::from_le_bytes(r.take(8)?.try_into().unwrap())),
            Prim::Text => {
                let l = r.uleb()?;
                if l > r.b.len() as u64 {
                    return Err(WErr::Malformed("truncated"));
                }
                let s = std::str::from_utf8(r.take(l as usize)?).map_err(|_| WErr::Malformed("utf8"))?;
                RVal::Text(s.to_string())
            }
            Prim::Principal => RVal::Principal(principal_bytes(r)?),
        },
        Node::Opt(inner) => match r.byte()? {
            0 => RVal::Opt(None),
            1 => RVal::some(decode_value(g, *inner, r, depth + 1)?),
            _ => return Err(WErr::Malformed("opt-tag")),
        },
        Node::Vec(inner) => {
            let l = r.uleb()?;
            if l > MAX_VEC_LEN {
                return Err(WErr::Unspecified("huge-vec"));
            }
            let mut vs = Vec::new();
            for _ in 0..l {
                vs.push(decode_value(g, *inner, r, depth + 1)?);
            }
            RVal::Vec(vs)
        }
        Node::Record(fs) => {
            let mut out = Vec::with_capacity(fs.len());
            for (i, t) in fs {
                out.push((*i, decode_value(g, *t, r, depth + 1)?));
            }
            RVal::Record(out)
        }
        Node::Variant(fs) => {
            let i = r.uleb()?;
            let (id, t) = fs.get(i as usize).ok_or(WErr::Malformed("variant-index"))?;
            RVal::Variant(*id, Box::new(decode_value(g, *t, r, depth + 1)?))
        }
        Node::Service(_) => RVal::Service(principal_bytes(r)?),
        Node::Func { .. } => {
            match r.byte()? {
                1 => {}
                0 => return Err(WErr::Unspecified("opaque-reference")),
                _ => return Err(WErr::Malformed("reference-tag")),
            }
            let p = principal_bytes(r)?;
            let l = r.uleb()?;
            if l > r.b.len() as u64 {
                return Err(WErr::Malformed("truncated"));
            }
            let s = std::str::from_utf8(r.take(l as usize)?).map_err(|_| WErr::Malformed("utf8"))?;
            RVal::Func(p, s.to_string())
        }
        Node::Future => {
            let m = r.uleb()?;
            let n = r.uleb()?;
            if m > r.b.len() as u64 {
                return Err(WErr::Malformed("truncated"));
            }
            r.take(m as usize)?;
            if n > 0 {
                return Err(WErr::Unspecified("future-with-references"));
            }
            RVal::Future
        }
        Node::Hole => return Err(WErr::Malformed("hole")),
    })
}

pub struct Decoded {
    pub types: WireTypes,
    pub values: Vec<RVal>,
    pub header: Header,
    pub nonminimal_structural: bool,
    pub nonminimal_value: bool,
}

/// Full message: header, values of the declared types, nothing left over.
pub fn decode_message(b: &[u8]) -> Result<Decoded, WErr> {
    let header = parse_header(b)?;
    let types = header_graph(&header);
    let mut r = Reader::new(b);
    r.pos = header.value_start;
    let mut values = vec![];
    for t in &types.args {
        values.push(decode_value(&types.graph, *t, &mut r, 0)?);
    }
    if r.pos != b.len() {
        return Err(WErr::Malformed("trailing-bytes"));
    }
    Ok(Decoded {
        nonminimal_structural: header.nonminimal || r.nonminimal,
        nonminimal_value: r.nonminimal_value,
        types,
        values,
        header,
    })
}

// ---------------------------------------------------------------------------
// Encoder

pub fn put_uleb(out: &mut Vec<u8>, v: u64) {
    out.extend(rleb::uleb_encode(&BigUint::from(v)));
}
pub fn put_sleb(out: &mut Vec<u8>, v: i64) {
    out.extend(rleb::sleb_encode(&BigInt::from(v)));
}

/// Layout choices the spec leaves open.
#[derive(Clone, Debug, Default)]
pub struct Layout {
    /// reverse the order of table entries
    pub reverse: bool,
    /// emit an extra copy of each composite entry (unused duplicates)
    pub duplicate: bool,
    /// append this many unused `opt null` entries
    pub unused: usize,
    /// pad nat/int values with this many redundant groups
    pub pad_numbers: usize,
}

pub struct TableAssign {
    /// node -> table index (composite nodes reachable from the roots)
    pub index: std::collections::BTreeMap<TId, i64>,
    pub order: Vec<TId>,
}

pub fn assign_table(g: &Graph, roots: &[TId], layout: &Layout) -> TableAssign {
    let mut order = vec![];
    let mut seen = std::collections::BTreeSet::new();
    fn go(g: &Graph, t: TId, seen: &mut std::collections::BTreeSet<TId>, order: &mut Vec<TId>) {
        if matches!(g.nodes[t], Node::Prim(_)) || !seen.insert(t) {
            return;
        }
        order.push(t);
        match &g.nodes[t] {
            Node::Opt(x) | Node::Vec(x) => go(g, *x, seen, order),
            Node::Record(fs) | Node::Variant(fs) => {
                for (_, x) in fs {
                    go(g, *x, seen, order)
                }
            }
            Node::Func { args, rets, .. } => {
                for x in args.iter().chain(rets) {
                    go(g, *x, seen, order)
                }
            }
            Node::Service(ms) => {
                for (_, x) in ms {
                    go(g, *x, seen, order)
                }
            }
            _ => {}
        }
    }
    for r in roots {
        go(g, *r, &mut seen, &mut order);
    }
    if layout.reverse {
        order.reverse();
    }
    let mut index = std::collections::BTreeMap::new();
    for (i, t) in order.iter().enumerate() {
        index.insert(*t, i as i64);
    }
    TableAssign { index, order }
}

fn put_ref(out: &mut Vec<u8>, g: &Graph, a: &TableAssign, t: TId) {
    match &g.nodes[t] {
        Node::Prim(p) => put_sleb(out, p.opcode()),
        _ => put_sleb(out, a.index[&t]),
    }
}

fn put_entry(out: &mut Vec<u8>, g: &Graph, a: &TableAssign, t: TId) {
    match &g.nodes[t] {
        Node::Opt(x) => {
            put_sleb(out, -18);
            put_ref(out, g, a, *x);
        }
        Node::Vec(x) => {
            put_sleb(out, -19);
            put_ref(out, g, a, *x);
        }
        Node::Record(fs) | Node::Variant(fs) => {
            put_sleb(out, if matches!(g.nodes[t], Node::Record(_)) { -20 } else { -21 });
            put_uleb(out, fs.len() as u64);
            for (i, x) in fs {
                put_uleb(out, *i as u64);
                put_ref(out, g, a, *x);
            }
        }
        Node::Func { args, rets, modes } => {
            put_sleb(out, -22);
            put_uleb(out, args.len() as u64);
            for x in args {
                put_ref(out, g, a, *x);
            }
            put_uleb(out, rets.len() as u64);
            for x in rets {
                put_ref(out, g, a, *x);
            }
            put_uleb(out, modes.len() as u64);
            for m in modes {
                out.push(m.wire());
            }
        }
        Node::Service(ms) => {
            put_sleb(out, -23);
            put_uleb(out, ms.len() as u64);
            for (n, x) in ms {
                put_uleb(out, n.len() as u64);
                out.extend_from_slice(n.as_bytes());
                put_ref(out, g, a, *x);
            }
        }
        Node::Future => {
            put_sleb(out, -30);
            put_uleb(out, 0);
        }
        Node::Prim(_) | Node::Hole => unreachable!(),
    }
}

pub fn encode_value(out: &mut Vec<u8>, g: &Graph, t: TId, v: &RVal, layout: &Layout) {
    let pad = |out: &mut Vec<u8>, mut s: Vec<u8>, neg: bool| {
        if layout.pad_numbers > 0 {
            *s.last_mut().unwrap() |= 0x80;
            for _ in 0..layout.pad_numbers - 1 {
                s.push(if neg { 0xff } else { 0x80 });
            }
            s.push(if neg { 0x7f } else { 0x00 });
        }
        out.extend(s);
    };
    match (&g.nodes[t], v) {
        (_, RVal::Null) | (_, RVal::Reserved) => {}
        (_, RVal::Bool(b)) => out.push(*b as u8),
        (_, RVal::Nat(n)) => pad(out, rleb::uleb_encode(n), false),
        (_, RVal::Int(n)) => pad(out, rleb::sleb_encode(n), n.sign() == num_bigint::Sign::Minus),
        (_, RVal::Nat8(n)) => out.push(*n),
        (_, RVal::Nat16(n)) => out.extend(n.to_le_bytes()),
        (_, RVal::Nat32(n)) => out.extend(n.to_le_bytes()),
        (_, RVal::Nat64(n)) => out.extend(n.to_le_bytes()),
        (_, RVal::Int8(n)) => out.push(*n as u8),
        (_, RVal::Int16(n)) => out.extend(n.to_le_bytes()),
        (_, RVal::Int32(n)) => out.extend(n.to_le_bytes()),
        (_, RVal::Int64(n)) => out.extend(n.to_le_bytes()),
        (_, RVal::Float32(b)) => out.extend(b.to_le_bytes()),
        (_, RVal::Float64(b)) => out.extend(b.to_le_bytes()),
        (_, RVal::Text(s)) => {
            put_uleb(out, s.len() as u64);
            out.extend_from_slice(s.as_bytes());
        }
        (Node::Opt(_), RVal::Opt(None)) => out.push(0),
        (Node::Opt(x), RVal::Opt(Some(v))) => {
            out.push(1);
            encode_value(out, g, *x, v, layout);
        }
        (Node::Vec(x), RVal::Vec(vs)) => {
            put_uleb(out, vs.len() as u64);
            for v in vs {
                encode_value(out, g, *x, v, layout);
            }
        }
        (Node::Record(fs), RVal::Record(vs)) => {
            for ((_, x), (_, v)) in fs.iter().zip(vs) {
                encode_value(out, g, *x, v, layout);
            }
        }
        (Node::Variant(fs), RVal::Variant(id, v)) => {
            let i = fs.iter().position(|(j, _)| j == id).expect("variant tag in type");
            put_uleb(out, i as u64);
            encode_value(out, g, fs[i].1, v, layout);
        }
        (_, RVal::Principal(p)) | (_, RVal::Service(p)) => {
            out.push(1);
            put_uleb(out, p.len() as u64);
            out.extend_from_slice(p);
        }
        (_, RVal::Func(p, m)) => {
            out.push(1);
            out.push(1);
            put_uleb(out, p.len() as u64);
            out.extend_from_slice(p);
            put_uleb(out, m.len() as u64);
            out.extend_from_slice(m.as_bytes());
        }
        (_, RVal::Future) => {
            put_uleb(out, 0);
            put_uleb(out, 0);
        }
        (n, v) => panic!("encode_value: value {v:?} does not fit node {n:?}"),
    }
}

/// Encode a message for values `vals` of types `roots` in `g`.
pub fn encode_message(g: &Graph, roots: &[TId], vals: &[RVal], layout: &Layout) -> Vec<u8> {
    let a = assign_table(g, roots, layout);
    let mut out = b"DIDL".to_vec();
    let dup = if layout.duplicate { a.order.len() } else { 0 };
    put_uleb(&mut out, (a.order.len() + dup + layout.unused) as u64);
    for t in &a.order {
        put_entry(&mut out, g, &a, *t);
    }
    if layout.duplicate {
        for t in &a.order {
            put_entry(&mut out, g, &a, *t);
        }
    }
    for _ in 0..layout.unused {
        put_sleb(&mut out, -18);
        put_sleb(&mut out, -1);
    }
    put_uleb(&mut out, roots.len() as u64);
    for r in roots {
        put_ref(&mut out, g, &a, *r);
    }
    for (r, v) in roots.iter().zip(vals) {
        encode_value(&mut out, g, *r, v, layout);
    }
    out
}
