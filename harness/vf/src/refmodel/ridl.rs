//! Conversions between the reference's abstract values and candid's IDLValue.

use super::rtype::{Graph, Node, Prim, TId};
use super::rval::RVal;
use candid::types::value::{IDLField, IDLValue, VariantValue};
use candid::types::Label;
use candid::{Int, Nat, Principal};

/// Untyped view of an annotated IDLValue (None if it contains an
/// un-annotated number or a principal the type cannot hold).
pub fn from_idl(v: &IDLValue) -> Option<RVal> {
    Some(match v {
        IDLValue::Bool(b) => RVal::Bool(*b),
        IDLValue::Null => RVal::Null,
        IDLValue::Text(s) => RVal::Text(s.clone()),
        IDLValue::Number(_) => return None,
        IDLValue::Float64(f) => RVal::Float64(f.to_bits()),
        IDLValue::Float32(f) => RVal::Float32(f.to_bits()),
        IDLValue::Opt(v) => RVal::some(from_idl(v)?),
        IDLValue::None => RVal::Opt(None),
        IDLValue::Vec(vs) => RVal::Vec(vs.iter().map(from_idl).collect::<Option<_>>()?),
        IDLValue::Blob(b) => RVal::Vec(b.iter().map(|x| RVal::Nat8(*x)).collect()),
        IDLValue::Record(fs) => {
            let mut out: Vec<(u32, RVal)> = fs
                .iter()
                .map(|f| Some((f.id.get_id(), from_idl(&f.val)?)))
                .collect::<Option<_>>()?;
            out.sort_by_key(|f| f.0);
            RVal::Record(out)
        }
        IDLValue::Variant(v) => RVal::Variant(v.0.id.get_id(), Box::new(from_idl(&v.0.val)?)),
        IDLValue::Principal(p) => RVal::Principal(p.as_slice().to_vec()),
        IDLValue::Service(p) => RVal::Service(p.as_slice().to_vec()),
        IDLValue::Func(p, m) => RVal::Func(p.as_slice().to_vec(), m.clone()),
        IDLValue::Int(i) => RVal::Int(i.0.clone()),
        IDLValue::Nat(n) => RVal::Nat(n.0.clone()),
        IDLValue::Nat8(n) => RVal::Nat8(*n),
        IDLValue::Nat16(n) => RVal::Nat16(*n),
        IDLValue::Nat32(n) => RVal::Nat32(*n),
        IDLValue::Nat64(n) => RVal::Nat64(*n),
        IDLValue::Int8(n) => RVal::Int8(*n),
        IDLValue::Int16(n) => RVal::Int16(*n),
        IDLValue::Int32(n) => RVal::Int32(*n),
        IDLValue::Int64(n) => RVal::Int64(*n),
        IDLValue::Reserved => RVal::Reserved,
    })
}

/// How labels are written in the produced IDLValue.
pub trait LabelNamer {
    fn label(&self, id: u32) -> Label;
}
pub struct ById;
impl LabelNamer for ById {
    fn label(&self, id: u32) -> Label {
        Label::Id(id)
    }
}

/// Canonical IDLValue (the form decoding/annotation produces): blobs as Blob,
/// numbers typed, null option as None.
pub fn to_idl(g: &Graph, t: TId, v: &RVal, namer: &dyn LabelNamer) -> IDLValue {
    match v {
        RVal::Null => IDLValue::Null,
        RVal::Bool(b) => IDLValue::Bool(*b),
        RVal::Nat(n) => IDLValue::Nat(Nat(n.clone())),
        RVal::Int(n) => IDLValue::Int(Int(n.clone())),
        RVal::Nat8(n) => IDLValue::Nat8(*n),
        RVal::Nat16(n) => IDLValue::Nat16(*n),
        RVal::Nat32(n) => IDLValue::Nat32(*n),
        RVal::Nat64(n) => IDLValue::Nat64(*n),
        RVal::Int8(n) => IDLValue::Int8(*n),
        RVal::Int16(n) => IDLValue::Int16(*n),
        RVal::Int32(n) => IDLValue::Int32(*n),
        RVal::Int64(n) => IDLValue::Int64(*n),
        RVal::Float32(b) => IDLValue::Float32(f32::from_bits(*b)),
        RVal::Float64(b) => IDLValue::Float64(f64::from_bits(*b)),
        RVal::Text(s) => IDLValue::Text(s.clone()),
        RVal::Reserved => IDLValue::Reserved,
        RVal::Opt(None) => IDLValue::None,
        RVal::Opt(Some(w)) => {
            let inner = match &g.nodes[t] {
                Node::Opt(x) => *x,
                _ => t,
            };
            IDLValue::Opt(Box::new(to_idl(g, inner, w, namer)))
        }
        RVal::Vec(vs) => {
            let inner = match &g.nodes[t] {
                Node::Vec(x) => *x,
                _ => t,
            };
            if g.nodes[inner] == Node::Prim(Prim::Nat8) {
                IDLValue::Blob(
                    vs.iter()
                        .map(|x| match x {
                            RVal::Nat8(b) => *b,
                            _ => 0,
                        })
                        .collect(),
                )
            } else {
                IDLValue::Vec(vs.iter().map(|x| to_idl(g, inner, x, namer)).collect())
            }
        }
        RVal::Record(fs) => {
            let tys: Vec<(u32, TId)> = match &g.nodes[t] {
                Node::Record(f) => f.clone(),
                _ => vec![],
            };
            IDLValue::Record(
                fs.iter()
                    .map(|(id, w)| {
                        let ft = tys.iter().find(|(i, _)| i == id).map(|x| x.1).unwrap_or(t);
                        IDLField {
                            id: namer.label(*id),
                            val: to_idl(g, ft, w, namer),
                        }
                    })
                    .collect(),
            )
        }
        RVal::Variant(id, w) => {
            let (idx, ft) = match &g.nodes[t] {
                Node::Variant(f) => f
                    .iter()
                    .enumerate()
                    .find(|(_, (i, _))| i == id)
                    .map(|(k, (_, x))| (k as u64, *x))
                    .unwrap_or((0, t)),
                _ => (0, t),
            };
            IDLValue::Variant(VariantValue(
                Box::new(IDLField {
                    id: namer.label(*id),
                    val: to_idl(g, ft, w, namer),
                }),
                idx,
            ))
        }
        RVal::Principal(p) => IDLValue::Principal(Principal::from_slice(p)),
        RVal::Service(p) => IDLValue::Service(Principal::from_slice(p)),
        RVal::Func(p, m) => IDLValue::Func(Principal::from_slice(p), m.clone()),
        RVal::Future => IDLValue::Null,
    }
}
