//! (S)LEB128 as arithmetic over big integers.
//! value = sum group_i * 128^i, minus 128^n when the last group has bit 6 set (signed).

use num_bigint::{BigInt, BigUint, Sign};
use num_traits::{One, Zero};

/// Unsigned: returns (value, bytes consumed) or None if no terminating byte.
pub fn uleb_decode(bytes: &[u8]) -> Option<(BigUint, usize)> {
    let mut v = BigUint::zero();
    let mut w = BigUint::one();
    for (i, b) in bytes.iter().enumerate() {
        v += &w * BigUint::from(b & 0x7f);
        w *= 128u32;
        if b & 0x80 == 0 {
            return Some((v, i + 1));
        }
    }
    None
}

pub fn sleb_decode(bytes: &[u8]) -> Option<(BigInt, usize)> {
    let mut v = BigInt::zero();
    let mut w = BigInt::one();
    for (i, b) in bytes.iter().enumerate() {
        v += &w * BigInt::from(b & 0x7f);
        w *= 128;
        if b & 0x80 == 0 {
            if b & 0x40 != 0 {
                v -= &w;
            }
            return Some((v, i + 1));
        }
    }
    None
}

/// Minimal unsigned encoding.
pub fn uleb_encode(v: &BigUint) -> Vec<u8> {
    let mut out = vec![];
    let mut v = v.clone();
    let m = BigUint::from(128u32);
    loop {
        let g = (&v % &m).to_u32_digits().first().copied().unwrap_or(0) as u8;
        v /= &m;
        if v.is_zero() {
            out.push(g);
            return out;
        }
        out.push(g | 0x80);
    }
}

/// Minimal signed encoding: shortest string whose sleb_decode is v.
pub fn sleb_encode(v: &BigInt) -> Vec<u8> {
    // smallest n with -64*128^(n-1) <= v < 64*128^(n-1)
    let mut n = 1usize;
    let mut half = BigInt::from(64);
    loop {
        if *v >= -&half && *v < half {
            break;
        }
        half *= 128;
        n += 1;
    }
    // two's complement modulo 128^n
    let modulus = BigInt::from(128).pow(n as u32);
    let mut u = if v.sign() == Sign::Minus { v + &modulus } else { v.clone() };
    let m = BigInt::from(128);
    let mut out = Vec::with_capacity(n);
    for i in 0..n {
        let g = (&u % &m).to_u32_digits().1.first().copied().unwrap_or(0) as u8;
        u /= &m;
        out.push(if i + 1 < n { g | 0x80 } else { g });
    }
    out
}

pub fn is_minimal_uleb(s: &[u8]) -> bool {
    match uleb_decode(s) {
        Some((v, n)) => n == s.len() && uleb_encode(&v) == s,
        None => false,
    }
}
pub fn is_minimal_sleb(s: &[u8]) -> bool {
    match sleb_decode(s) {
        Some((v, n)) => n == s.len() && sleb_encode(&v) == s,
        None => false,
    }
}

#[cfg(test)]
mod tests {
    use super::*;
    #[test]
    fn basics() {
        assert_eq!(uleb_encode(&BigUint::from(624485u32)), vec![0xe5, 0x8e, 0x26]);
        assert_eq!(sleb_encode(&BigInt::from(-123456)), vec![0xc0, 0xbb, 0x78]);
        assert_eq!(sleb_encode(&BigInt::from(-1)), vec![0x7f]);
        assert_eq!(sleb_encode(&BigInt::from(63)), vec![0x3f]);
        assert_eq!(sleb_encode(&BigInt::from(64)), vec![0xc0, 0x00]);
        assert_eq!(sleb_encode(&BigInt::from(-64)), vec![0x40]);
        assert_eq!(sleb_encode(&BigInt::from(-65)), vec![0xbf, 0x7f]);
        for i in -70000i64..70000 {
            let e = sleb_encode(&BigInt::from(i));
            let (v, n) = sleb_decode(&e).unwrap();
            assert_eq!(n, e.len());
            assert_eq!(v, BigInt::from(i));
            if i >= 0 {
                let e = uleb_encode(&BigUint::from(i as u64));
                let (v, n) = uleb_decode(&e).unwrap();
                assert_eq!((v, n), (BigUint::from(i as u64), e.len()));
            }
        }
    }
}
