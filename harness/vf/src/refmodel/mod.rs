//! Independent reference model written from spec/Candid.md. Shares no code
//! with candid / candid_parser.
pub mod rcheck;
pub mod rcoerce;
pub mod rleb;
pub mod rprincipal;
pub mod rsub;
pub mod rtype;
pub mod rval;
pub mod rwire;
pub mod ridl;
