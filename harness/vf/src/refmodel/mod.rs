//! Independent reference model written from spec/Candid.md. Shares no code
//! with candid / candid_parser.
pub mod rleb;
pub mod rprincipal;
