//! Well-formedness of a program per spec/Candid.md (Type definitions,
//! Services, Functions, Records/Variants).

use super::rtype::{Env, Mode, Ty};
use std::collections::BTreeSet;

#[derive(Debug, Clone, PartialEq, Eq)]
pub enum Reject {
    DuplicateDefinition(String),
    Undefined(String),
    VacuousCycle(String),
    DuplicateFieldId(u32),
    DuplicateMethod(String),
    MethodNotFunction(String),
    TooManyAnnotations,
    OnewayWithResults,
    ActorNotService,
    ClassNotAtTop,
}

/// Follow alias chains from a name to the first non-variable body.
fn resolve<'a>(env: &'a Env, name: &str) -> Result<&'a Ty, Reject> {
    let mut cur = name.to_string();
    let mut seen = BTreeSet::new();
    loop {
        if !seen.insert(cur.clone()) {
            return Err(Reject::VacuousCycle(name.to_string()));
        }
        match env.get(&cur) {
            None => return Err(Reject::Undefined(cur)),
            Some(Ty::Var(n)) => cur = n.clone(),
            Some(t) => return Ok(t),
        }
    }
}

fn check_ty(env: &Env, t: &Ty) -> Result<(), Reject> {
    match t {
        Ty::Prim(_) => Ok(()),
        Ty::Var(n) => {
            if env.get(n).is_none() {
                Err(Reject::Undefined(n.clone()))
            } else {
                Ok(())
            }
        }
        Ty::Opt(x) | Ty::Vec(x) => check_ty(env, x),
        Ty::Record(fs) | Ty::Variant(fs) => {
            let mut ids = BTreeSet::new();
            for (l, x) in fs {
                if !ids.insert(l.id()) {
                    return Err(Reject::DuplicateFieldId(l.id()));
                }
                check_ty(env, x)?;
            }
            Ok(())
        }
        Ty::Func { args, rets, modes } => {
            if modes.len() > 1 {
                return Err(Reject::TooManyAnnotations);
            }
            if modes.contains(&Mode::Oneway) && !rets.is_empty() {
                return Err(Reject::OnewayWithResults);
            }
            for x in args.iter().chain(rets) {
                check_ty(env, x)?;
            }
            Ok(())
        }
        Ty::Service(ms) => {
            let mut names = BTreeSet::new();
            for (n, x) in ms {
                if !names.insert(n.clone()) {
                    return Err(Reject::DuplicateMethod(n.clone()));
                }
                check_ty(env, x)?;
                let is_func = match x {
                    Ty::Func { .. } => true,
                    Ty::Var(v) => matches!(resolve(env, v)?, Ty::Func { .. }),
                    _ => false,
                };
                if !is_func {
                    return Err(Reject::MethodNotFunction(n.clone()));
                }
            }
            Ok(())
        }
        Ty::Class(..) => Err(Reject::ClassNotAtTop),
    }
}

fn is_service(env: &Env, t: &Ty) -> Result<bool, Reject> {
    Ok(match t {
        Ty::Service(_) => true,
        Ty::Var(n) => matches!(resolve(env, n)?, Ty::Service(_)),
        _ => false,
    })
}

pub fn check(env: &Env, actor: Option<&Ty>) -> Result<(), Reject> {
    let mut names = BTreeSet::new();
    for (n, _) in &env.defs {
        if !names.insert(n.clone()) {
            return Err(Reject::DuplicateDefinition(n.clone()));
        }
    }
    for (n, t) in &env.defs {
        check_ty(env, t)?;
        if let Ty::Var(_) = t {
            resolve(env, n)?;
        }
    }
    if let Some(a) = actor {
        match a {
            Ty::Class(args, body) => {
                for x in args {
                    check_ty(env, x)?;
                }
                check_ty(env, body)?;
                if !is_service(env, body)? {
                    return Err(Reject::ActorNotService);
                }
            }
            other => {
                check_ty(env, other)?;
                if !is_service(env, other)? {
                    return Err(Reject::ActorNotService);
                }
            }
        }
    }
    Ok(())
}
