//! Abstract values (spec: Values) and the typing judgement v : t.

use super::rtype::{Graph, Node, Prim, TId};
use num_bigint::{BigInt, BigUint};

#[derive(Clone, Debug, PartialEq, Eq, Hash)]
pub enum RVal {
    Null,
    Bool(bool),
    Nat(BigUint),
    Int(BigInt),
    Nat8(u8),
    Nat16(u16),
    Nat32(u32),
    Nat64(u64),
    Int8(i8),
    Int16(i16),
    Int32(i32),
    Int64(i64),
    /// floats by bit pattern
    Float32(u32),
    Float64(u64),
    Text(String),
    Reserved,
    /// None = null at an option type
    Opt(Option<Box<RVal>>),
    Vec(Vec<RVal>),
    /// sorted by id
    Record(Vec<(u32, RVal)>),
    Variant(u32, Box<RVal>),
    Principal(Vec<u8>),
    Service(Vec<u8>),
    Func(Vec<u8>, String),
    /// value of a future type (skipped bytes)
    Future,
}

impl RVal {
    pub fn some(v: RVal) -> RVal {
        RVal::Opt(Some(Box::new(v)))
    }
    pub fn none() -> RVal {
        RVal::Opt(None)
    }
}

/// v : t
pub fn inhabits(g: &Graph, v: &RVal, t: TId) -> bool {
    match (&g.nodes[t], v) {
        (Node::Prim(p), v) => matches!(
            (p, v),
            (Prim::Null, RVal::Null)
                | (Prim::Bool, RVal::Bool(_))
                | (Prim::Nat, RVal::Nat(_))
                | (Prim::Int, RVal::Int(_))
                | (Prim::Nat8, RVal::Nat8(_))
                | (Prim::Nat16, RVal::Nat16(_))
                | (Prim::Nat32, RVal::Nat32(_))
                | (Prim::Nat64, RVal::Nat64(_))
                | (Prim::Int8, RVal::Int8(_))
                | (Prim::Int16, RVal::Int16(_))
                | (Prim::Int32, RVal::Int32(_))
                | (Prim::Int64, RVal::Int64(_))
                | (Prim::Float32, RVal::Float32(_))
                | (Prim::Float64, RVal::Float64(_))
                | (Prim::Text, RVal::Text(_))
                | (Prim::Reserved, RVal::Reserved)
                | (Prim::Principal, RVal::Principal(_))
        ),
        (Node::Opt(_), RVal::Opt(None)) => true,
        (Node::Opt(t), RVal::Opt(Some(v))) => inhabits(g, v, *t),
        (Node::Vec(t), RVal::Vec(vs)) => vs.iter().all(|v| inhabits(g, v, *t)),
        (Node::Record(fs), RVal::Record(vs)) => {
            fs.len() == vs.len() && fs.iter().zip(vs).all(|((i, t), (j, v))| i == j && inhabits(g, v, *t))
        }
        (Node::Variant(fs), RVal::Variant(i, v)) => match fs.iter().find(|(j, _)| j == i) {
            Some((_, t)) => inhabits(g, v, *t),
            None => false,
        },
        (Node::Func { .. }, RVal::Func(p, _)) => p.len() <= 29,
        (Node::Service(_), RVal::Service(p)) => p.len() <= 29,
        (Node::Future, RVal::Future) => true,
        _ => false,
    }
}

pub fn show(v: &RVal) -> String {
    match v {
        RVal::Null => "null".into(),
        RVal::Bool(b) => b.to_string(),
        RVal::Nat(n) => format!("{n}:nat"),
        RVal::Int(n) => format!("{n}:int"),
        RVal::Nat8(n) => format!("{n}:nat8"),
        RVal::Nat16(n) => format!("{n}:nat16"),
        RVal::Nat32(n) => format!("{n}:nat32"),
        RVal::Nat64(n) => format!("{n}:nat64"),
        RVal::Int8(n) => format!("{n}:int8"),
        RVal::Int16(n) => format!("{n}:int16"),
        RVal::Int32(n) => format!("{n}:int32"),
        RVal::Int64(n) => format!("{n}:int64"),
        RVal::Float32(b) => format!("f32#{b:08x}"),
        RVal::Float64(b) => format!("f64#{b:016x}"),
        RVal::Text(s) => format!("{s:?}"),
        RVal::Reserved => "reserved".into(),
        RVal::Opt(None) => "null?".into(),
        RVal::Opt(Some(v)) => format!("opt {}", show(v)),
        RVal::Vec(vs) => {
            if vs.len() > 12 {
                format!("vec[{} elems; {}, ..]", vs.len(), vs.iter().take(6).map(show).collect::<Vec<_>>().join(", "))
            } else {
                format!("vec[{}]", vs.iter().map(show).collect::<Vec<_>>().join(", "))
            }
        }
        RVal::Record(fs) => format!("{{{}}}", fs.iter().map(|(i, v)| format!("{i}={}", show(v))).collect::<Vec<_>>().join("; ")),
        RVal::Variant(i, v) => format!("<{i}={}>", show(v)),
        RVal::Principal(p) => format!("principal#{}", hex::encode(p)),
        RVal::Service(p) => format!("service#{}", hex::encode(p)),
        RVal::Func(p, m) => format!("func#{}.{m:?}", hex::encode(p)),
        RVal::Future => "future".into(),
    }
}
