//! Subtyping (spec: "Upgrading and subtyping -> Rules") and structural
//! equality, both as greatest fixed points over the reachable pairs of a type
//! graph: start from all reachable pairs, delete pairs whose rule premises
//! fail, iterate until stable.

use super::rtype::{Graph, Node, Prim as P, TId};
use std::collections::{HashMap, HashSet};

pub enum Rule {
    True,
    False,
    All(Vec<(TId, TId)>),
}

/// Greatest fixed point membership of `root` under `rule`.
pub fn gfp(root: (TId, TId), rule: &dyn Fn((TId, TId)) -> Rule) -> bool {
    let mut rules: HashMap<(TId, TId), Vec<(TId, TId)>> = HashMap::new();
    let mut dead: HashSet<(TId, TId)> = HashSet::new();
    let mut work = vec![root];
    let mut seen: HashSet<(TId, TId)> = HashSet::new();
    seen.insert(root);
    while let Some(p) = work.pop() {
        match rule(p) {
            Rule::True => {
                rules.insert(p, vec![]);
            }
            Rule::False => {
                dead.insert(p);
            }
            Rule::All(ps) => {
                for q in &ps {
                    if seen.insert(*q) {
                        work.push(*q);
                    }
                }
                rules.insert(p, ps);
            }
        }
    }
    // delete until stable
    loop {
        let mut changed = false;
        let keys: Vec<(TId, TId)> = rules.keys().copied().collect();
        for k in keys {
            if rules[&k].iter().any(|q| dead.contains(q)) {
                rules.remove(&k);
                dead.insert(k);
                changed = true;
            }
        }
        if !changed {
            break;
        }
    }
    !dead.contains(&root)
}

fn tuple_rule(g: &Graph, sub: &[TId], sup: &[TId]) -> Rule {
    // record { 0:sub0; 1:sub1; .. } <: record { 0:sup0; .. }
    let mut ps = vec![];
    for (i, t2) in sup.iter().enumerate() {
        match sub.get(i) {
            Some(t1) => ps.push((*t1, *t2)),
            None => {
                if !g.null_sub(*t2) {
                    return Rule::False;
                }
            }
        }
    }
    Rule::All(ps)
}

/// The spec's subtype rules, including the two "unusual" opt rules (so every
/// type is a subtype of every option type).
pub fn sub_rule(g: &Graph, (a, b): (TId, TId)) -> Rule {
    use Node::*;
    match (&g.nodes[a], &g.nodes[b]) {
        (_, Prim(P::Reserved)) => Rule::True,
        (Prim(P::Empty), _) => Rule::True,
        (Prim(p), Prim(q)) if p == q => Rule::True,
        (Prim(P::Nat), Prim(P::Int)) => Rule::True,
        (Service(_), Prim(P::Principal)) => Rule::True,
        (_, Opt(_)) => Rule::True,
        (Vec(x), Vec(y)) => Rule::All(vec![(*x, *y)]),
        (Record(f1), Record(f2)) => {
            let mut ps = vec![];
            for (id, t2) in f2 {
                match f1.iter().find(|(i, _)| i == id) {
                    Some((_, t1)) => ps.push((*t1, *t2)),
                    None => {
                        if !g.null_sub(*t2) {
                            return Rule::False;
                        }
                    }
                }
            }
            Rule::All(ps)
        }
        (Variant(f1), Variant(f2)) => {
            let mut ps = vec![];
            for (id, t1) in f1 {
                match f2.iter().find(|(i, _)| i == id) {
                    Some((_, t2)) => ps.push((*t1, *t2)),
                    None => return Rule::False,
                }
            }
            Rule::All(ps)
        }
        (
            Func { args: a1, rets: r1, modes: m1 },
            Func { args: a2, rets: r2, modes: m2 },
        ) => {
            let s1: HashSet<_> = m1.iter().collect();
            let s2: HashSet<_> = m2.iter().collect();
            if s1 != s2 {
                return Rule::False;
            }
            let mut ps = vec![];
            match tuple_rule(g, a2, a1) {
                Rule::False => return Rule::False,
                Rule::All(v) => ps.extend(v),
                Rule::True => {}
            }
            match tuple_rule(g, r1, r2) {
                Rule::False => return Rule::False,
                Rule::All(v) => ps.extend(v),
                Rule::True => {}
            }
            Rule::All(ps)
        }
        (Service(m1), Service(m2)) => {
            let mut ps = vec![];
            for (name, t2) in m2 {
                match m1.iter().find(|(n, _)| n == name) {
                    Some((_, t1)) => ps.push((*t1, *t2)),
                    None => return Rule::False,
                }
            }
            Rule::All(ps)
        }
        _ => Rule::False,
    }
}

pub fn subtype(g: &Graph, a: TId, b: TId) -> bool {
    gfp((a, b), &|p| sub_rule(g, p))
}

/// Argument sequences are related like tuple-like records.
pub fn subtype_seq(g: &Graph, sub: &[TId], sup: &[TId]) -> bool {
    match tuple_rule(g, sub, sup) {
        Rule::False => false,
        Rule::True => true,
        Rule::All(ps) => ps.iter().all(|(a, b)| subtype(g, *a, *b)),
    }
}

/// Structural equality (bisimilarity), ignoring definition names.
pub fn eq_rule(g: &Graph, (a, b): (TId, TId)) -> Rule {
    use Node::*;
    if a == b {
        return Rule::True;
    }
    match (&g.nodes[a], &g.nodes[b]) {
        (Prim(p), Prim(q)) => {
            if p == q {
                Rule::True
            } else {
                Rule::False
            }
        }
        (Opt(x), Opt(y)) | (Vec(x), Vec(y)) => Rule::All(vec![(*x, *y)]),
        (Record(f1), Record(f2)) | (Variant(f1), Variant(f2)) => {
            if f1.len() != f2.len() || f1.iter().zip(f2).any(|(x, y)| x.0 != y.0) {
                return Rule::False;
            }
            Rule::All(f1.iter().zip(f2).map(|(x, y)| (x.1, y.1)).collect())
        }
        (
            Func { args: a1, rets: r1, modes: m1 },
            Func { args: a2, rets: r2, modes: m2 },
        ) => {
            let s1: HashSet<_> = m1.iter().collect();
            let s2: HashSet<_> = m2.iter().collect();
            if s1 != s2 || a1.len() != a2.len() || r1.len() != r2.len() {
                return Rule::False;
            }
            Rule::All(
                a1.iter()
                    .zip(a2)
                    .chain(r1.iter().zip(r2))
                    .map(|(x, y)| (*x, *y))
                    .collect(),
            )
        }
        (Service(m1), Service(m2)) => {
            if m1.len() != m2.len() || m1.iter().zip(m2).any(|(x, y)| x.0 != y.0) {
                return Rule::False;
            }
            Rule::All(m1.iter().zip(m2).map(|(x, y)| (x.1, y.1)).collect())
        }
        (Future, Future) => Rule::True,
        _ => Rule::False,
    }
}

pub fn equal(g: &Graph, a: TId, b: TId) -> bool {
    gfp((a, b), &|p| eq_rule(g, p))
}

/// Equality across two graphs: copy `h` into a clone of `g`.
pub fn equal_across(g: &Graph, a: TId, h: &Graph, b: TId) -> bool {
    let (m, off) = merge(g, h);
    equal(&m, a, b + off)
}

/// Append `h`'s nodes to a copy of `g`; returns the merged graph and the offset
/// added to `h`'s ids.
pub fn merge(g: &Graph, h: &Graph) -> (Graph, usize) {
    let off = g.nodes.len();
    let mut m = g.clone();
    for n in &h.nodes {
        m.nodes.push(shift(n, off));
    }
    (m, off)
}

pub fn shift(n: &Node, off: usize) -> Node {
    use Node::*;
    match n {
        Prim(p) => Prim(*p),
        Opt(t) => Opt(t + off),
        Vec(t) => Vec(t + off),
        Record(fs) => Record(fs.iter().map(|(i, t)| (*i, t + off)).collect()),
        Variant(fs) => Variant(fs.iter().map(|(i, t)| (*i, t + off)).collect()),
        Func { args, rets, modes } => Func {
            args: args.iter().map(|t| t + off).collect(),
            rets: rets.iter().map(|t| t + off).collect(),
            modes: modes.clone(),
        },
        Service(ms) => Service(ms.iter().map(|(n, t)| (n.clone(), t + off)).collect()),
        Future => Future,
        Hole => Hole,
    }
}

/// Inhabitedness by least fixed point: does the type have a finite value?
pub fn inhabited(g: &Graph) -> Vec<bool> {
    let n = g.nodes.len();
    let mut inh = vec![false; n];
    loop {
        let mut changed = false;
        for i in 0..n {
            if inh[i] {
                continue;
            }
            let v = match &g.nodes[i] {
                Node::Prim(P::Empty) => false,
                Node::Prim(_) => true,
                Node::Opt(_) | Node::Vec(_) => true,
                Node::Record(fs) => fs.iter().all(|(_, t)| inh[*t]),
                Node::Variant(fs) => fs.iter().any(|(_, t)| inh[*t]),
                Node::Func { .. } | Node::Service(_) => true,
                Node::Future => true,
                Node::Hole => false,
            };
            if v {
                inh[i] = true;
                changed = true;
            }
        }
        if !changed {
            return inh;
        }
    }
}
