//! Coercion  V : T ~> V' : T'  (spec: Upgrading and subtyping -> Coercion) as a
//! total recursive function on the finite value. Both types live in one graph
//! (so the reference rules can ask the subtype relation).

use super::rsub;
use super::rtype::{Graph, Node, Prim as P, TId};
use super::rval::RVal;
use std::collections::BTreeSet;

#[derive(Default, Debug, Clone)]
pub struct Trace {
    /// wire values visited (materialised or skipped), vector elements counted individually
    pub wire_values: u64,
    /// wire values that were skipped (surplus fields/arguments, values under a failed option, values read at reserved)
    pub skipped_values: u64,
    pub flags: BTreeSet<&'static str>,
    /// expected-type recursion that consumes no value (e.g. `type T = opt T`)
    /// went too deep: the reference gives no answer
    pub unproductive: bool,
    pub depth: u32,
    /// Variant of the relation used only to *classify* a known deviation of the
    /// implementation: a vector whose element type is not nat8 does not coerce
    /// to `vec nat8`, even when it is empty.
    pub strict_blob: bool,
}
impl Trace {
    pub fn sub(&self) -> Trace {
        Trace {
            strict_blob: self.strict_blob,
            ..Trace::default()
        }
    }
}

pub fn count_values(v: &RVal) -> u64 {
    1 + match v {
        RVal::Opt(Some(v)) => count_values(v),
        RVal::Vec(vs) => vs.iter().map(count_values).sum(),
        RVal::Record(fs) => fs.iter().map(|(_, v)| count_values(v)).sum(),
        RVal::Variant(_, v) => count_values(v),
        _ => 0,
    }
}

pub fn coerce(g: &Graph, v: &RVal, t: TId, t2: TId, tr: &mut Trace) -> Option<RVal> {
    use Node::*;
    tr.wire_values += 1;
    match (&g.nodes[t], &g.nodes[t2]) {
        // _ : t ~> null : reserved
        (_, Prim(P::Reserved)) => {
            let n = count_values(v);
            tr.wire_values += n - 1;
            if !matches!(g.nodes[t], Prim(P::Reserved)) {
                tr.skipped_values += n;
                tr.flags.insert("read-at-reserved");
            }
            Some(RVal::Reserved)
        }
        (tn, Opt(inner2)) => {
            match (tn, v) {
                // null <: t : null, reserved and absent options go to null
                (Prim(P::Null), _) => {
                    tr.flags.insert("null-at-opt");
                    Some(RVal::Opt(None))
                }
                (Prim(P::Reserved), _) => {
                    tr.flags.insert("reserved-at-opt");
                    Some(RVal::Opt(None))
                }
                (Opt(_), RVal::Opt(None)) => Some(RVal::Opt(None)),
                (Opt(inner), RVal::Opt(Some(w))) => {
                    let mut sub = tr.sub();
                    let r = coerce(g, w, *inner, *inner2, &mut sub);
                    tr.unproductive |= sub.unproductive;
                    match r {
                        Some(w2) => {
                            tr.wire_values += sub.wire_values;
                            tr.skipped_values += sub.skipped_values;
                            tr.flags.extend(sub.flags);
                            Some(RVal::some(w2))
                        }
                        None => {
                            let n = count_values(w);
                            tr.wire_values += n;
                            tr.skipped_values += n;
                            tr.flags.insert("opt-backtrack");
                            Some(RVal::Opt(None))
                        }
                    }
                }
                (Opt(_), _) => None, // ill-typed input value
                // not (null <: t): try the constituent type, else null
                _ => {
                    let mut sub = tr.sub();
                    sub.depth = tr.depth + 1;
                    if sub.depth > 64 {
                        tr.unproductive = true;
                        return None;
                    }
                    let r = coerce(g, v, t, *inner2, &mut sub);
                    tr.unproductive |= sub.unproductive;
                    match r {
                        Some(w2) => {
                            // the value itself was already counted once above
                            tr.wire_values += sub.wire_values - 1;
                            tr.skipped_values += sub.skipped_values;
                            tr.flags.extend(sub.flags);
                            tr.flags.insert("non-opt-at-opt");
                            Some(RVal::some(w2))
                        }
                        None => {
                            let n = count_values(v);
                            tr.wire_values += n - 1;
                            tr.skipped_values += n;
                            tr.flags.insert("opt-backtrack");
                            tr.flags.insert("non-opt-at-opt-fails");
                            Some(RVal::Opt(None))
                        }
                    }
                }
            }
        }
        (Prim(P::Nat), Prim(P::Int)) => match v {
            RVal::Nat(n) => {
                tr.flags.insert("nat-at-int");
                Some(RVal::Int(n.clone().into()))
            }
            _ => None,
        },
        (Service(_), Prim(P::Principal)) => match v {
            RVal::Service(p) => {
                tr.flags.insert("service-at-principal");
                Some(RVal::Principal(p.clone()))
            }
            _ => None,
        },
        (Prim(p), Prim(q)) => {
            if p == q && *p != P::Empty {
                Some(v.clone())
            } else {
                None
            }
        }
        (Vec(a), Vec(b)) => match v {
            RVal::Vec(_) if tr.strict_blob && g.nodes[*b] == Prim(P::Nat8) && g.nodes[*a] != Prim(P::Nat8) => None,
            RVal::Vec(vs) => {
                let mut out = std::vec::Vec::with_capacity(vs.len());
                for x in vs {
                    out.push(coerce(g, x, *a, *b, tr)?);
                }
                Some(RVal::Vec(out))
            }
            _ => None,
        },
        (Record(f1), Record(f2)) => match v {
            RVal::Record(vs) => {
                let mut out = std::vec::Vec::new();
                // walk both sorted lists
                let mut used = vec![false; f1.len()];
                for (id, t2f) in f2 {
                    match f1.iter().position(|(i, _)| i == id) {
                        Some(k) => {
                            used[k] = true;
                            let w = coerce(g, &vs.get(k)?.1, f1[k].1, *t2f, tr)?;
                            out.push((*id, w));
                        }
                        None => {
                            // only in the expected type: must be null, opt or reserved
                            let w = match &g.nodes[*t2f] {
                                Prim(P::Null) => RVal::Null,
                                Prim(P::Reserved) => RVal::Reserved,
                                Opt(_) => RVal::Opt(None),
                                _ => return None,
                            };
                            tr.flags.insert("missing-field-null");
                            out.push((*id, w));
                        }
                    }
                }
                for (k, u) in used.iter().enumerate() {
                    if !u {
                        let n = count_values(&vs.get(k)?.1);
                        tr.wire_values += n;
                        tr.skipped_values += n;
                        tr.flags.insert("surplus-field");
                    }
                }
                Some(RVal::Record(out))
            }
            _ => None,
        },
        (Variant(f1), Variant(f2)) => match v {
            RVal::Variant(id, w) => {
                let (_, t1f) = f1.iter().find(|(i, _)| i == id)?;
                match f2.iter().find(|(i, _)| i == id) {
                    Some((_, t2f)) => Some(RVal::Variant(*id, Box::new(coerce(g, w, *t1f, *t2f, tr)?))),
                    None => {
                        tr.flags.insert("unknown-variant-tag");
                        None
                    }
                }
            }
            _ => None,
        },
        (Func { .. }, Func { .. }) => {
            if rsub::subtype(g, t, t2) {
                tr.flags.insert("func-ref-subtype");
                Some(v.clone())
            } else {
                tr.flags.insert("func-ref-not-subtype");
                None
            }
        }
        (Service(_), Service(_)) => {
            if rsub::subtype(g, t, t2) {
                tr.flags.insert("service-ref-subtype");
                Some(v.clone())
            } else {
                tr.flags.insert("service-ref-not-subtype");
                None
            }
        }
        _ => None,
    }
}

pub enum SeqResult {
    Ok(Vec<RVal>),
    Fail,
}

/// Argument sequences coerce like tuple-like records: surplus arguments are
/// ignored, missing ones must be null/opt/reserved and read as null.
pub fn coerce_seq(g: &Graph, vals: &[RVal], ts: &[TId], t2s: &[TId], tr: &mut Trace) -> Option<Vec<RVal>> {
    let mut out = vec![];
    for (i, t2) in t2s.iter().enumerate() {
        if i < ts.len() {
            out.push(coerce(g, &vals[i], ts[i], *t2, tr)?);
        } else {
            let w = match &g.nodes[*t2] {
                Node::Prim(P::Null) => RVal::Null,
                Node::Prim(P::Reserved) => RVal::Reserved,
                Node::Opt(_) => RVal::Opt(None),
                _ => return None,
            };
            tr.flags.insert("missing-argument-null");
            out.push(w);
        }
    }
    for v in vals.iter().skip(t2s.len()) {
        let n = count_values(v);
        tr.wire_values += n;
        tr.skipped_values += n;
        tr.flags.insert("surplus-argument");
    }
    Some(out)
}
