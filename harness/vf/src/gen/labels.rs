//! Label / name / text pools.

use super::Ent;
use crate::refmodel::rtype::rhash;

pub const CANDID_KW: &[&str] = &[
    "import", "service", "func", "type", "opt", "vec", "record", "variant", "blob", "principal", "nat", "nat8", "nat16", "nat32",
    "nat64", "int", "int8", "int16", "int32", "int64", "float32", "float64", "bool", "text", "null", "reserved", "empty", "oneway",
    "query", "composite_query", "true", "false",
];
pub const JS_KW: &[&str] = &[
    "abstract", "arguments", "await", "boolean", "break", "byte", "case", "catch", "char", "class", "const", "continue", "debugger",
    "default", "delete", "do", "double", "else", "enum", "eval", "export", "extends", "false", "final", "finally", "float", "for",
    "function", "goto", "if", "implements", "import", "in", "instanceof", "int", "interface", "let", "long", "native", "new", "null",
    "package", "private", "protected", "public", "return", "short", "static", "super", "switch", "synchronized", "this", "throw",
    "throws", "transient", "true", "try", "typeof", "var", "void", "volatile", "while", "with", "yield", "async", "of", "undefined",
    "NaN", "Infinity", "constructor", "prototype", "__proto__", "toString", "hasOwnProperty", "IDL", "idlFactory", "init",
];
pub const MOTOKO_KW: &[&str] = &[
    "actor", "and", "async", "assert", "await", "break", "case", "catch", "class", "continue", "debug", "debug_show", "do", "else",
    "false", "flexible", "for", "from_candid", "func", "if", "ignore", "import", "in", "module", "not", "null", "object", "or",
    "label", "let", "loop", "private", "public", "query", "return", "shared", "stable", "switch", "system", "throw", "to_candid",
    "true", "try", "type", "var", "while", "with", "composite", "Nat", "Int", "Text", "Bool", "Blob", "Principal", "Any", "None",
];
pub const RUST_KW: &[&str] = &[
    "as", "break", "const", "continue", "crate", "else", "enum", "extern", "false", "fn", "for", "if", "impl", "in", "let", "loop",
    "match", "mod", "move", "mut", "pub", "ref", "return", "self", "Self", "static", "struct", "super", "trait", "true", "type",
    "unsafe", "use", "where", "while", "async", "await", "dyn", "abstract", "become", "box", "do", "final", "macro", "override",
    "priv", "typeof", "unsized", "virtual", "yield", "try", "union", "Ok", "Err", "Some", "None", "Option", "Vec", "Box", "String",
    "Result", "Principal", "Service", "Func", "_", "candid", "serde",
];

/// Names that are plain identifiers.
pub const IDENTS: &[&str] = &[
    "a", "b", "c", "x", "y", "id", "name", "value", "ok", "err", "Ok", "Err", "head", "tail", "left", "right", "key", "val", "f",
    "g", "get", "set", "foo", "bar", "a_b", "b_c", "aB", "ab", "A", "B", "a1", "_a", "a_", "__", "_0", "_1_", "x_y_z", "fooBar",
    "foo_bar", "FooBar", "table0", "table1", "T", "List", "Tree", "node", "this_is_a_long_identifier_name_for_testing_purposes",
];

/// Odd names that need quoting somewhere.
pub const ODD: &[&str] = &[
    "", " ", "a b", "a,b", "a.b", "a-b", "a\"b", "a'b", "a`b", "a\\b", "a$b", "${x}", "a{b", "a}b", "*/", "/*", "//", "a\nb", "a\rb",
    "a\tb", "\0", "a\0b", "\u{7f}", "\u{1}", "\u{1f}", "é", "日本語", "\u{2028}", "\u{2029}", "\u{d7ff}", "\u{e000}", "\u{10ffff}",
    "\u{1f600}", "a\u{301}", "\u{feff}", "0", "1", "123", "007", "4294967295", "4294967296", "-1", "1e3", "0x10", "1_000",
    "name,name,unit", "x,id,struct", "_", "__", "_0_", "_1_", "_42_", "true ", "a:b", "a;b", "a=b", "(", ")", "#", "@", "%", "<T>",
    "&amp;", "\\u{41}", "\\n", "\\",
    // a backslash followed by what would be an escape if the text were escaped twice
    "\\0", "C:\\0day", "\\u{0}", "\\\\", "\\\"", "\\t\\r", "\\x41", "a\\0\0b", "\\'",
];

/// Pairs of distinct identifiers with equal hash (found offline by a birthday
/// search; verified by a unit test against the reference hash).
pub const COLLISIONS: &[(&str, &str)] = &[
    ("be9tv", "vhpumn8x"), ("ac7csb", "qlxsl8_"), ("w5ba", "cv2t2"), ("kqnye", "q23apq59"), ("pcjla", "va4dbsgg"),
    ("ct3u7", "u6cf"), ("xm86l6", "d0fqqw"), ("wb7exd", "lysvbw"), ("c79n57f5", "wilgkx"), ("sv288", "lqjroq"),
    ("h4ua9", "ldcs2k"), ("x17ais", "r0npghn"), ("ccft2", "diba"), ("cx4x0", "y7f_"),
];

#[cfg(test)]
mod tests {
    #[test]
    fn collisions_collide() {
        for (a, b) in super::COLLISIONS {
            assert_ne!(a, b);
            assert_eq!(crate::refmodel::rtype::rhash(a), crate::refmodel::rtype::rhash(b));
        }
    }
}

pub fn colliding_pair(e: &mut Ent) -> (String, String) {
    let (a, b) = COLLISIONS[e.below(COLLISIONS.len())];
    (a.to_string(), b.to_string())
}

pub fn unicode_char(e: &mut Ent) -> char {
    const SPECIAL: &[char] = &[
        '\0', '\u{1}', '\u{7}', '\u{8}', '\t', '\n', '\u{b}', '\u{c}', '\r', '\u{1b}', '\u{1f}', ' ', '"', '\'', '\\', '`', '$', '{', '}',
        '/', '*', '\u{7f}', '\u{80}', '\u{85}', '\u{a0}', '\u{ad}', '\u{300}', '\u{301}', '\u{200b}', '\u{200d}', '\u{2028}', '\u{2029}',
        '\u{202e}', '\u{d7ff}', '\u{e000}', '\u{fdd0}', '\u{feff}', '\u{fffd}', '\u{fffe}', '\u{ffff}', '\u{10000}', '\u{1f600}',
        '\u{e0001}', '\u{10ffff}', 'a', 'f', '0', '9', 'x', 'u', 'n',
    ];
    match e.below(4) {
        0 | 1 => *e.pick(SPECIAL),
        2 => (0x20 + e.below(0x5f) as u8) as char,
        _ => {
            let v = e.u32() % 0x110000;
            char::from_u32(v).unwrap_or('\u{fffd}')
        }
    }
}

pub fn text(e: &mut Ent) -> String {
    let len = match e.below(10) {
        0 => 0,
        1 => *e.pick(&[127usize, 128, 129, 300]),
        _ => e.range(0, 12),
    };
    if len > 100 {
        // long: mostly ASCII with a few specials
        let mut s = String::with_capacity(len);
        for i in 0..len {
            if i % 37 == 5 {
                s.push(unicode_char(e));
            } else {
                s.push((b'a' + (i % 26) as u8) as char);
            }
        }
        return s;
    }
    (0..len).map(|_| unicode_char(e)).collect()
}

/// A field/variant name (any string).
pub fn label_name(e: &mut Ent) -> String {
    match e.below(12) {
        0..=4 => (*e.pick(IDENTS)).to_string(),
        5 => (*e.pick(CANDID_KW)).to_string(),
        6 => match e.below(3) {
            0 => (*e.pick(JS_KW)).to_string(),
            1 => (*e.pick(MOTOKO_KW)).to_string(),
            _ => (*e.pick(RUST_KW)).to_string(),
        },
        7 => {
            let k = match e.below(4) {
                0 => *e.pick(CANDID_KW),
                1 => *e.pick(JS_KW),
                2 => *e.pick(MOTOKO_KW),
                _ => *e.pick(RUST_KW),
            };
            format!("{k}_")
        }
        8 | 9 => (*e.pick(ODD)).to_string(),
        10 => text(e),
        _ => {
            let (a, b) = colliding_pair(e);
            if e.bool() {
                a
            } else {
                b
            }
        }
    }
}

pub fn field_id(e: &mut Ent) -> u32 {
    match e.below(8) {
        0 => 0,
        1 => 1,
        2 => e.below(10) as u32,
        3 => *e.pick(&[(1u32 << 31) - 1, 1 << 31, (1 << 31) + 1, u32::MAX - 1, u32::MAX]),
        4 => rhash(IDENTS[e.below(IDENTS.len())]),
        _ => e.u32(),
    }
}

/// An identifier usable as a type definition name.
pub fn ident(e: &mut Ent) -> String {
    (*e.pick(IDENTS)).to_string()
}
