//! Inhabitants v : t by structural recursion with a fuel budget.

use super::labels;
use super::Ent;
use crate::refmodel::rsub;
use crate::refmodel::rtype::{Graph, Node, Prim, TId};
use crate::refmodel::rval::RVal;
use num_bigint::{BigInt, BigUint};
use num_traits::One;

pub struct ValGen<'g> {
    pub g: &'g Graph,
    pub inh: Vec<bool>,
    /// minimal value height per node (usize::MAX if uninhabited)
    pub height: Vec<usize>,
    pub max_vec: usize,
}

impl<'g> ValGen<'g> {
    pub fn new(g: &'g Graph) -> ValGen<'g> {
        let inh = rsub::inhabited(g);
        let n = g.nodes.len();
        let mut height = vec![usize::MAX; n];
        loop {
            let mut changed = false;
            for i in 0..n {
                let h = match &g.nodes[i] {
                    Node::Prim(Prim::Empty) | Node::Hole => usize::MAX,
                    Node::Prim(_) | Node::Opt(_) | Node::Vec(_) | Node::Func { .. } | Node::Service(_) | Node::Future => 1,
                    Node::Record(fs) => fs
                        .iter()
                        .map(|(_, t)| height[*t])
                        .max()
                        .map(|m| m.saturating_add(1))
                        .unwrap_or(1),
                    Node::Variant(fs) => fs
                        .iter()
                        .map(|(_, t)| height[*t])
                        .min()
                        .map(|m| m.saturating_add(1))
                        .unwrap_or(usize::MAX),
                };
                if h < height[i] {
                    height[i] = h;
                    changed = true;
                }
            }
            if !changed {
                break;
            }
        }
        ValGen { g, inh, height, max_vec: 4 }
    }
    pub fn inhabited(&self, t: TId) -> bool {
        self.inh[t]
    }

    pub fn gen(&self, e: &mut Ent, t: TId, fuel: usize) -> Option<RVal> {
        if !self.inh[t] {
            return None;
        }
        Some(match &self.g.nodes[t] {
            Node::Prim(p) => gen_prim_val(e, *p)?,
            Node::Opt(x) => {
                if fuel == 0 || !self.inh[*x] || e.ratio(1, 4) {
                    RVal::Opt(None)
                } else {
                    RVal::some(self.gen(e, *x, fuel - 1)?)
                }
            }
            Node::Vec(x) => {
                if fuel == 0 || !self.inh[*x] {
                    RVal::Vec(vec![])
                } else {
                    let n = match e.below(8) {
                        0 => 0,
                        1 => e.range(5, 14),
                        _ => e.range(1, self.max_vec),
                    };
                    // zero-sized element types: allow a few more
                    let mut vs = Vec::with_capacity(n);
                    for _ in 0..n {
                        vs.push(self.gen(e, *x, fuel - 1)?);
                    }
                    RVal::Vec(vs)
                }
            }
            Node::Record(fs) => {
                let mut out = vec![];
                for (i, x) in fs {
                    out.push((*i, self.gen(e, *x, fuel.saturating_sub(1))?));
                }
                RVal::Record(out)
            }
            Node::Variant(fs) => {
                let ok: Vec<&(u32, TId)> = fs.iter().filter(|(_, x)| self.inh[*x]).collect();
                if ok.is_empty() {
                    return None;
                }
                let pick = if fuel == 0 {
                    // minimal-height case so generation terminates
                    *ok.iter().min_by_key(|(_, x)| self.height[*x]).unwrap()
                } else {
                    // bias to non-first cases
                    let k = e.below(ok.len() + 1);
                    ok[if k == 0 { ok.len() - 1 } else { k - 1 }]
                };
                RVal::Variant(pick.0, Box::new(self.gen(e, pick.1, fuel.saturating_sub(1))?))
            }
            Node::Func { .. } => RVal::Func(gen_principal(e), gen_method(e)),
            Node::Service(_) => RVal::Service(gen_principal(e)),
            Node::Future => RVal::Future,
            Node::Hole => return None,
        })
    }
}

pub fn gen_principal(e: &mut Ent) -> Vec<u8> {
    let n = match e.below(6) {
        0 => 0,
        1 => 29,
        2 => 1,
        _ => e.range(0, 29),
    };
    e.bytes_padded(n)
}

pub fn gen_method(e: &mut Ent) -> String {
    match e.below(4) {
        0 => labels::label_name(e),
        _ => (*e.pick(&["f", "get", "transfer", "m"])).to_string(),
    }
}

pub fn gen_biguint(e: &mut Ent) -> BigUint {
    match e.below(6) {
        0 => BigUint::from(e.below(200) as u32),
        1 | 2 => {
            let ks: [u32; 20] = [6, 7, 8, 13, 14, 31, 32, 56, 57, 62, 63, 64, 65, 70, 126, 127, 128, 129, 200, 256];
            let k = *e.pick(&ks);
            let v = BigUint::one() << k;
            match e.below(3) {
                0 => v - 1u32,
                1 => v,
                _ => v + 1u32,
            }
        }
        3 => BigUint::from(e.u64()),
        4 => BigUint::from(e.u32()),
        _ => {
            let n = e.range(1, 32);
            BigUint::from_bytes_le(&e.bytes_padded(n))
        }
    }
}

pub fn gen_bigint(e: &mut Ent) -> BigInt {
    let m = BigInt::from(gen_biguint(e));
    if e.bool() {
        -m
    } else {
        m
    }
}

pub fn gen_f64_bits(e: &mut Ent) -> u64 {
    match e.below(8) {
        0 => 0,
        1 => (-0.0f64).to_bits(),
        2 => f64::NAN.to_bits(),
        3 => *e.pick(&[f64::INFINITY.to_bits(), f64::NEG_INFINITY.to_bits(), f64::MIN_POSITIVE.to_bits(), 1, f64::MAX.to_bits()]),
        4 => (e.range_i64(-1000, 1000) as f64).to_bits(),
        5 => (e.range_i64(-100000, 100000) as f64 / 64.0).to_bits(),
        _ => e.u64(),
    }
}
pub fn gen_f32_bits(e: &mut Ent) -> u32 {
    match e.below(8) {
        0 => 0,
        1 => (-0.0f32).to_bits(),
        2 => f32::NAN.to_bits(),
        3 => *e.pick(&[f32::INFINITY.to_bits(), f32::NEG_INFINITY.to_bits(), f32::MIN_POSITIVE.to_bits(), 1, f32::MAX.to_bits()]),
        4 => (e.range_i64(-1000, 1000) as f32).to_bits(),
        5 => (e.range_i64(-100000, 100000) as f32 / 64.0).to_bits(),
        _ => e.u32(),
    }
}

fn edge<T: Copy>(e: &mut Ent, edges: &[T], any: T) -> T {
    if e.ratio(1, 2) {
        *e.pick(edges)
    } else {
        any
    }
}

pub fn gen_prim_val(e: &mut Ent, p: Prim) -> Option<RVal> {
    Some(match p {
        Prim::Null => RVal::Null,
        Prim::Reserved => RVal::Reserved,
        Prim::Empty => return None,
        Prim::Bool => RVal::Bool(e.bool()),
        Prim::Nat => RVal::Nat(gen_biguint(e)),
        Prim::Int => RVal::Int(gen_bigint(e)),
        Prim::Nat8 => {
            let a = e.u8();
            RVal::Nat8(edge(e, &[0, 1, 127, 128, 255], a))
        }
        Prim::Nat16 => {
            let a = e.u16();
            RVal::Nat16(edge(e, &[0, 1, 255, 256, u16::MAX], a))
        }
        Prim::Nat32 => {
            let a = e.u32();
            RVal::Nat32(edge(e, &[0, 1, 65535, 65536, u32::MAX], a))
        }
        Prim::Nat64 => {
            let a = e.u64();
            RVal::Nat64(edge(e, &[0, 1, u32::MAX as u64 + 1, u64::MAX, 1 << 63], a))
        }
        Prim::Int8 => {
            let a = e.u8() as i8;
            RVal::Int8(edge(e, &[0, -1, 1, i8::MIN, i8::MAX], a))
        }
        Prim::Int16 => {
            let a = e.u16() as i16;
            RVal::Int16(edge(e, &[0, -1, 1, i16::MIN, i16::MAX], a))
        }
        Prim::Int32 => {
            let a = e.u32() as i32;
            RVal::Int32(edge(e, &[0, -1, 1, i32::MIN, i32::MAX], a))
        }
        Prim::Int64 => {
            let a = e.u64() as i64;
            RVal::Int64(edge(e, &[0, -1, 1, i64::MIN, i64::MAX], a))
        }
        Prim::Float32 => RVal::Float32(gen_f32_bits(e)),
        Prim::Float64 => RVal::Float64(gen_f64_bits(e)),
        Prim::Text => RVal::Text(labels::text(e)),
        Prim::Principal => RVal::Principal(gen_principal(e)),
    })
}
