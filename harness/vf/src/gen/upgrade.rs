//! Upgrade steps on syntactic types: produce a supertype, a subtype or an
//! unrelated neighbour of a type by one local edit at a random position.

use super::types::{gen_label, gen_method_name, gen_prim, gen_ty, Scope, TypeCfg};
use super::Ent;
use crate::refmodel::rtype::{Env, Lab, Prim, Ty};

#[derive(Clone, Copy, PartialEq, Eq, Debug)]
pub enum Dir {
    Super,
    Sub,
    Unrelated,
}
impl Dir {
    fn flip(self) -> Dir {
        match self {
            Dir::Super => Dir::Sub,
            Dir::Sub => Dir::Super,
            Dir::Unrelated => Dir::Unrelated,
        }
    }
}

fn nullish(e: &mut Ent, sc: &Scope, cfg: &TypeCfg) -> Ty {
    match e.below(4) {
        0 => Ty::Prim(Prim::Null),
        1 => Ty::Prim(Prim::Reserved),
        _ => Ty::opt(gen_ty(e, sc, 1, cfg)),
    }
}

fn fresh_label(e: &mut Ent, fs: &[(Lab, Ty)], cfg: &TypeCfg) -> Option<Lab> {
    for _ in 0..4 {
        let l = gen_label(e, cfg);
        if !fs.iter().any(|(k, _)| k.id() == l.id()) {
            return Some(l);
        }
    }
    let l = Lab::Id(e.u32());
    if fs.iter().any(|(k, _)| k.id() == l.id()) {
        None
    } else {
        Some(l)
    }
}

/// One step in direction `dir` applied somewhere inside `t`. Var nodes are
/// unfolded once with probability 1/2 (so edits reach into definitions).
pub fn step(e: &mut Ent, env: &Env, sc: &Scope, t: &Ty, dir: Dir, cfg: &TypeCfg, depth: usize) -> Ty {
    // descend?
    if depth < 6 && e.ratio(1, 2) {
        match t {
            Ty::Opt(x) => return Ty::opt(step(e, env, sc, x, dir, cfg, depth + 1)),
            Ty::Vec(x) => return Ty::vec(step(e, env, sc, x, dir, cfg, depth + 1)),
            Ty::Record(fs) | Ty::Variant(fs) if !fs.is_empty() => {
                let i = e.below(fs.len());
                let mut fs2 = fs.clone();
                fs2[i].1 = step(e, env, sc, &fs[i].1, dir, cfg, depth + 1);
                return if matches!(t, Ty::Record(_)) { Ty::Record(fs2) } else { Ty::Variant(fs2) };
            }
            Ty::Func { args, rets, modes } if !(args.is_empty() && rets.is_empty()) => {
                let k = e.below(args.len() + rets.len());
                let mut a = args.clone();
                let mut r = rets.clone();
                if k < args.len() {
                    a[k] = step(e, env, sc, &args[k], dir.flip(), cfg, depth + 1);
                } else {
                    r[k - args.len()] = step(e, env, sc, &rets[k - args.len()], dir, cfg, depth + 1);
                }
                return Ty::Func { args: a, rets: r, modes: modes.clone() };
            }
            Ty::Service(ms) if !ms.is_empty() => {
                let i = e.below(ms.len());
                let mut m2 = ms.clone();
                // keep methods functions: only step inline function types
                if matches!(ms[i].1, Ty::Func { .. }) {
                    m2[i].1 = step(e, env, sc, &ms[i].1, dir, cfg, depth + 1);
                    if !matches!(m2[i].1, Ty::Func { .. }) {
                        m2[i].1 = ms[i].1.clone();
                    }
                }
                return Ty::Service(m2);
            }
            Ty::Var(name) => {
                if let Some(body) = env.get(name) {
                    if !matches!(body, Ty::Class(..)) {
                        return step(e, env, sc, &body.clone(), dir, cfg, depth + 1);
                    }
                }
            }
            _ => {}
        }
    }
    match dir {
        Dir::Unrelated => match t {
            Ty::Prim(p) => {
                let q = gen_prim(e, cfg);
                if q == *p {
                    Ty::Prim(if *p == Prim::Text { Prim::Bool } else { Prim::Text })
                } else {
                    Ty::Prim(q)
                }
            }
            Ty::Record(fs) | Ty::Variant(fs) if !fs.is_empty() && e.bool() => {
                // change one field id by one
                let i = e.below(fs.len());
                let mut fs2 = fs.clone();
                let nid = fs[i].0.id().wrapping_add(1);
                if !fs.iter().any(|(k, _)| k.id() == nid) {
                    fs2[i].0 = Lab::Id(nid);
                }
                if matches!(t, Ty::Record(_)) { Ty::Record(fs2) } else { Ty::Variant(fs2) }
            }
            Ty::Vec(x) if **x == Ty::Prim(Prim::Nat8) => Ty::Prim(Prim::Text),
            Ty::Func { args, rets, modes } => {
                use crate::refmodel::rtype::Mode;
                let m = if modes.is_empty() { vec![Mode::Query] } else { vec![] };
                Ty::Func { args: args.clone(), rets: if m.is_empty() { rets.clone() } else { rets.clone() }, modes: m }
            }
            _ => gen_ty(e, sc, 2, cfg),
        },
        Dir::Super => match t {
            Ty::Prim(Prim::Nat) if e.bool() => Ty::Prim(Prim::Int),
            Ty::Record(fs) if e.ratio(2, 3) => {
                let mut fs2 = fs.clone();
                if !fs.is_empty() && e.bool() {
                    fs2.remove(e.below(fs.len()));
                } else if let Some(l) = fresh_label(e, fs, cfg) {
                    let at = e.below(fs2.len() + 1);
                    fs2.insert(at, (l, nullish(e, sc, cfg)));
                }
                Ty::Record(fs2)
            }
            Ty::Variant(fs) if e.ratio(2, 3) => {
                let mut fs2 = fs.clone();
                if let Some(l) = fresh_label(e, fs, cfg) {
                    let at = e.below(fs2.len() + 1);
                    fs2.insert(at, (l, gen_ty(e, sc, 1, cfg)));
                }
                Ty::Variant(fs2)
            }
            Ty::Func { args, rets, modes } if e.ratio(2, 3) => {
                let mut a = args.clone();
                let mut r = rets.clone();
                match e.below(3) {
                    0 => a.push(gen_ty(e, sc, 1, cfg)), // supertype takes more (callers of the subtype supply fewer)
                    1 => {
                        r.pop();
                    }
                    _ => a.push(nullish(e, sc, cfg)),
                }
                Ty::Func { args: a, rets: r, modes: modes.clone() }
            }
            Ty::Service(ms) if e.ratio(2, 3) => {
                if !ms.is_empty() && e.bool() {
                    let mut m2 = ms.clone();
                    m2.remove(e.below(ms.len()));
                    Ty::Service(m2)
                } else {
                    Ty::Prim(Prim::Principal)
                }
            }
            _ => match e.below(5) {
                0 => Ty::Prim(Prim::Reserved),
                _ => Ty::opt(t.clone()),
            },
        },
        Dir::Sub => match t {
            Ty::Prim(Prim::Int) if e.bool() => Ty::Prim(Prim::Nat),
            Ty::Prim(Prim::Principal) if cfg.refs && e.bool() => Ty::Service(vec![]),
            Ty::Prim(Prim::Reserved) => gen_ty(e, sc, 2, cfg),
            Ty::Opt(x) if e.ratio(2, 3) => match e.below(3) {
                0 => Ty::Prim(Prim::Null),
                _ => (**x).clone(),
            },
            Ty::Record(fs) if e.ratio(2, 3) => {
                let mut fs2 = fs.clone();
                if let Some(l) = fresh_label(e, fs, cfg) {
                    let at = e.below(fs2.len() + 1);
                    fs2.insert(at, (l, gen_ty(e, sc, 1, cfg)));
                }
                Ty::Record(fs2)
            }
            Ty::Variant(fs) if !fs.is_empty() && e.ratio(2, 3) => {
                let mut fs2 = fs.clone();
                fs2.remove(e.below(fs.len()));
                Ty::Variant(fs2)
            }
            Ty::Func { args, rets, modes } if e.ratio(2, 3) => {
                let mut a = args.clone();
                let mut r = rets.clone();
                if !a.is_empty() && e.bool() {
                    a.pop();
                } else if !modes.contains(&crate::refmodel::rtype::Mode::Oneway) {
                    r.push(gen_ty(e, sc, 1, cfg));
                }
                Ty::Func { args: a, rets: r, modes: modes.clone() }
            }
            Ty::Service(ms) if e.ratio(2, 3) => {
                let mut m2 = ms.clone();
                let name = gen_method_name(e, cfg);
                if !ms.iter().any(|(k, _)| *k == name) {
                    m2.push((name, super::types::gen_func(e, sc, 1, cfg)));
                }
                Ty::Service(m2)
            }
            _ => match e.below(4) {
                0 => Ty::Prim(Prim::Empty),
                _ => t.clone(),
            },
        },
    }
}
