//! Generators over an entropy buffer. All randomness comes from the buffer;
//! exhausted entropy yields the simplest alternative (zero / first / empty).

pub struct Ent<'a> {
    u: arbitrary::Unstructured<'a>,
}

impl<'a> Ent<'a> {
    pub fn new(data: &'a [u8]) -> Ent<'a> {
        Ent {
            u: arbitrary::Unstructured::new(data),
        }
    }
    pub fn is_empty(&self) -> bool {
        self.u.is_empty()
    }
    pub fn remaining(&self) -> usize {
        self.u.len()
    }
    /// Uniform in lo..=hi (lo when exhausted).
    pub fn range(&mut self, lo: usize, hi: usize) -> usize {
        if lo >= hi {
            return lo;
        }
        self.u.int_in_range(lo..=hi).unwrap_or(lo)
    }
    pub fn range_i64(&mut self, lo: i64, hi: i64) -> i64 {
        if lo >= hi {
            return lo;
        }
        self.u.int_in_range(lo..=hi).unwrap_or(lo)
    }
    pub fn below(&mut self, n: usize) -> usize {
        if n <= 1 {
            0
        } else {
            self.range(0, n - 1)
        }
    }
    pub fn u8(&mut self) -> u8 {
        self.u.arbitrary::<u8>().unwrap_or(0)
    }
    pub fn u16(&mut self) -> u16 {
        self.u.arbitrary::<u16>().unwrap_or(0)
    }
    pub fn u32(&mut self) -> u32 {
        self.u.arbitrary::<u32>().unwrap_or(0)
    }
    pub fn u64(&mut self) -> u64 {
        self.u.arbitrary::<u64>().unwrap_or(0)
    }
    pub fn u128(&mut self) -> u128 {
        self.u.arbitrary::<u128>().unwrap_or(0)
    }
    pub fn bool(&mut self) -> bool {
        self.u8() & 1 == 1
    }
    /// true with probability num/den (false when exhausted).
    pub fn ratio(&mut self, num: u32, den: u32) -> bool {
        if self.u.is_empty() {
            return false;
        }
        self.u.ratio(num, den).unwrap_or(false)
    }
    pub fn pick<'b, T>(&mut self, xs: &'b [T]) -> &'b T {
        let i = self.below(xs.len());
        &xs[i]
    }
    pub fn bytes(&mut self, n: usize) -> Vec<u8> {
        let n = n.min(self.u.len());
        self.u.bytes(n).map(|b| b.to_vec()).unwrap_or_default()
    }
    /// exactly n bytes, zero-padded when the entropy runs out
    pub fn bytes_padded(&mut self, n: usize) -> Vec<u8> {
        let mut v = self.bytes(n);
        v.resize(n, 0);
        v
    }
    pub fn rest(&mut self) -> Vec<u8> {
        let n = self.u.len();
        self.bytes(n)
    }
}

pub mod labels;
pub mod types;
pub mod values;
pub mod upgrade;
pub mod prog;
