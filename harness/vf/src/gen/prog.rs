//! Program generator (definitions + main service / service constructor) and a
//! .did emitter with randomised use of the syntactic shorthands.

use super::types::{gen_env, gen_service, gen_ty, Scope, TypeCfg};
use super::Ent;
use crate::refmodel::rtype::{is_plain_ident, quote_text, Env, Lab, Prim, Ty};

#[derive(Clone, Debug)]
pub struct Prog {
    pub env: Env,
    /// None, Service, Var(service definition), or Class(args, Service | Var)
    pub actor: Option<Ty>,
}

pub fn gen_prog(e: &mut Ent, cfg: &TypeCfg) -> (Prog, Scope) {
    let (mut env, mut sc) = gen_env(e, cfg);
    let actor = match e.below(8) {
        0 => None,
        1 | 2 | 3 => Some(gen_service(e, &sc, 2, cfg)),
        4 | 5 => {
            // a named service definition
            let mut body = gen_service(e, &sc, 2, cfg);
            let mut name = if e.bool() { "Srv".to_string() } else { (*e.pick(cfg.def_names)).to_string() };
            while env.get(&name).is_some() {
                name.push('_');
            }
            // sometimes the named service is recursive: a method hands out the service itself
            if e.ratio(1, 3) {
                if let Ty::Service(ms) = &mut body {
                    if !ms.iter().any(|m| m.0 == "next") {
                        let ret = if e.bool() { Ty::Var(name.clone()) } else { Ty::Opt(Box::new(Ty::Var(name.clone()))) };
                        ms.push(("next".into(), Ty::Func { args: vec![], rets: vec![ret], modes: vec![] }));
                        ms.sort_by(|a, b| a.0.cmp(&b.0));
                    }
                }
            }
            env.defs.push((name.clone(), body));
            sc.defs.push(super::types::DefPlan {
                name: name.clone(),
                kind: super::types::Kind::Service,
                alias_of: None,
            });
            Some(Ty::Var(name))
        }
        _ => {
            let n = e.range(0, 3);
            let args = (0..n).map(|_| gen_ty(e, &sc, 2, cfg)).collect();
            Some(Ty::Class(args, Box::new(gen_service(e, &sc, 2, cfg))))
        }
    };
    (Prog { env, actor }, sc)
}

#[derive(Clone, Debug, Default)]
pub struct EmitOpts {
    /// 0..=255: how eagerly shorthands are used
    pub shorthand: u8,
    pub comments: bool,
    pub arg_names: bool,
    pub hex_ids: bool,
    pub trailing_semis: bool,
    pub docs: bool,
    /// texts used for doc comments (chosen by index, so two pools of equal
    /// length give programs that differ only in their comment text)
    pub doc_pool: Vec<String>,
}

pub fn gen_opts(e: &mut Ent) -> EmitOpts {
    EmitOpts {
        shorthand: e.u8(),
        comments: e.ratio(1, 4),
        arg_names: e.ratio(1, 3),
        hex_ids: e.ratio(1, 4),
        trailing_semis: e.bool(),
        docs: e.ratio(1, 3),
        doc_pool: vec![],
    }
}

pub struct Emitter<'a, 'b> {
    pub e: &'a mut Ent<'b>,
    pub o: EmitOpts,
}

impl Emitter<'_, '_> {
    fn ws(&mut self) -> String {
        if self.o.comments && self.e.ratio(1, 6) {
            match self.e.below(3) {
                0 => " /* c */ ".into(),
                1 => " /* a /* nested */ b */ ".into(),
                _ => " // line comment\n ".into(),
            }
        } else {
            " ".into()
        }
    }
    fn doc_line(&mut self) -> String {
        if self.o.doc_pool.is_empty() {
            return "// doc comment\n".to_string();
        }
        let i = self.e.below(self.o.doc_pool.len());
        format!("// {}\n", self.o.doc_pool[i])
    }
    fn name(&mut self, s: &str) -> String {
        if is_plain_ident(s) && !(self.o.shorthand > 200 && self.e.bool()) {
            s.to_string()
        } else {
            quote_text(s)
        }
    }
    fn id(&mut self, n: u32) -> String {
        if self.o.hex_ids && self.e.bool() {
            format!("0x{:x}", n)
        } else if n >= 1000 && self.e.bool() {
            // underscores in numerals
            let s = n.to_string();
            let mut out = String::new();
            for (i, c) in s.chars().enumerate() {
                if i > 0 && (s.len() - i) % 3 == 0 {
                    out.push('_');
                }
                out.push(c);
            }
            out
        } else {
            n.to_string()
        }
    }
    fn lab(&mut self, l: &Lab) -> String {
        match l {
            Lab::Id(n) => self.id(*n),
            Lab::Named(s) => self.name(s),
        }
    }
    fn use_short(&mut self) -> bool {
        (self.e.u8() as u16) < self.o.shorthand as u16
    }
    pub fn ty(&mut self, t: &Ty) -> String {
        match t {
            Ty::Prim(p) => p.name().to_string(),
            Ty::Var(s) => s.clone(),
            Ty::Opt(x) => format!("opt{}{}", self.ws(), self.ty(x)),
            Ty::Vec(x) => {
                if **x == Ty::Prim(Prim::Nat8) && self.use_short() {
                    "blob".into()
                } else {
                    format!("vec{}{}", self.ws(), self.ty(x))
                }
            }
            Ty::Record(fs) => {
                // tuple shorthand: a field whose id is (previous id + 1, or 0) may omit its label
                let mut parts = vec![];
                let mut next: u64 = 0;
                for (l, x) in fs {
                    let id = l.id() as u64;
                    let s = if matches!(l, Lab::Id(_)) && id == next && self.use_short() {
                        self.ty(x)
                    } else {
                        format!("{}{}:{}{}", self.lab(l), self.ws(), self.ws(), self.ty(x))
                    };
                    next = id + 1;
                    parts.push(s);
                }
                self.braces("record", parts)
            }
            Ty::Variant(fs) => {
                let mut parts = vec![];
                for (l, x) in fs {
                    if *x == Ty::Prim(Prim::Null) && self.use_short() {
                        parts.push(self.lab(l));
                    } else {
                        parts.push(format!("{}{}:{}{}", self.lab(l), self.ws(), self.ws(), self.ty(x)));
                    }
                }
                self.braces("variant", parts)
            }
            Ty::Func { .. } => format!("func{}{}", self.ws(), self.func_sig(t)),
            Ty::Service(ms) => format!("service{}{}", self.ws(), self.service_body(ms)),
            Ty::Class(args, t) => {
                let a = self.args(args);
                let body = match t.as_ref() {
                    Ty::Service(ms) => self.service_body(ms),
                    other => self.ty(other),
                };
                format!("{a}{}->{}{body}", self.ws(), self.ws())
            }
        }
    }
    fn braces(&mut self, kw: &str, parts: Vec<String>) -> String {
        let mut s = format!("{kw}{}{{", self.ws());
        let n = parts.len();
        for (i, p) in parts.into_iter().enumerate() {
            s.push_str(&self.ws());
            s.push_str(&p);
            if i + 1 < n || self.o.trailing_semis {
                s.push(';');
            }
        }
        s.push_str(&self.ws());
        s.push('}');
        s
    }
    fn args(&mut self, ts: &[Ty]) -> String {
        let mut parts = vec![];
        for (i, t) in ts.iter().enumerate() {
            if self.o.arg_names && self.e.bool() {
                parts.push(format!("arg{i}{}:{}{}", self.ws(), self.ws(), self.ty(t)));
            } else {
                parts.push(self.ty(t));
            }
        }
        format!("({})", parts.join(", "))
    }
    pub fn func_sig(&mut self, t: &Ty) -> String {
        match t {
            Ty::Func { args, rets, modes } => {
                let mut s = format!("{}{}->{}{}", self.args(args), self.ws(), self.ws(), self.args(rets));
                for m in modes {
                    s.push(' ');
                    s.push_str(m.name());
                }
                s
            }
            other => self.ty(other),
        }
    }
    pub fn service_body(&mut self, ms: &[(String, Ty)]) -> String {
        let mut parts = vec![];
        for (n, t) in ms {
            let doc = if self.o.docs && self.e.ratio(1, 3) { self.doc_line() } else { String::new() };
            let sig = match t {
                Ty::Func { .. } => self.func_sig(t),
                other => self.ty(other),
            };
            parts.push(format!("{doc}{}{}:{}{}", self.name(n), self.ws(), self.ws(), sig));
        }
        self.braces("", parts).trim_start().to_string()
    }
    pub fn prog(&mut self, p: &Prog) -> String {
        let mut s = String::new();
        for (n, t) in &p.env.defs {
            if self.o.docs && self.e.ratio(1, 3) {
                let d = self.doc_line();
                s.push_str(&d);
            }
            s.push_str(&format!("type{}{n}{}={}{};\n", self.ws(), self.ws(), self.ws(), self.ty(t)));
        }
        if let Some(a) = &p.actor {
            let body = match a {
                Ty::Service(ms) => self.service_body(ms),
                other => self.ty(other),
            };
            if self.o.docs && self.e.ratio(1, 2) {
                let d = self.doc_line();
                s.push_str(&d);
            }
            let name = if self.e.ratio(1, 4) { " my_service" } else { "" };
            s.push_str(&format!("service{name}{}:{}{body}{}\n", self.ws(), self.ws(), if self.e.bool() { ";" } else { "" }));
        }
        s
    }
}

pub fn emit(e: &mut Ent, p: &Prog) -> String {
    let o = gen_opts(e);
    Emitter { e, o }.prog(p)
}

/// Plain emitter (no shorthands, no randomness).
pub fn emit_plain(p: &Prog) -> String {
    crate::refmodel::rtype::emit_prog(&p.env, p.actor.as_ref())
}
