//! Type environment generator (syntactic `Env`/`Ty`, well-formed by construction).

use super::labels;
use super::Ent;
use crate::refmodel::rtype::{Env, Lab, Mode, Prim, Ty, ALL_PRIMS};

#[derive(Clone, Debug)]
pub struct TypeCfg {
    pub max_defs: usize,
    pub max_depth: usize,
    pub max_fields: usize,
    /// function and service types allowed
    pub refs: bool,
    /// full label pool (keywords, odd characters, collisions) instead of identifiers and small ids
    pub odd_labels: bool,
    /// names of definitions are drawn from this pool (must be plain identifiers)
    pub def_names: &'static [&'static str],
    /// allow `empty`
    pub empty: bool,
    /// method names are identifiers (possibly keywords of the targets), whatever odd_labels says
    pub ident_methods: bool,
    /// now and then wrap a generated type in 60..140 nested opt/vec constructors, so
    /// that the type table has more than 64 (and more than 127) entries
    pub wide_table: bool,
}

pub const DEF_NAMES: &[&str] = &["A", "B", "C", "D", "E", "F", "G", "H", "List", "Tree", "node", "t", "my_type", "T1"];

impl Default for TypeCfg {
    fn default() -> TypeCfg {
        TypeCfg {
            max_defs: 5,
            max_depth: 3,
            max_fields: 4,
            refs: true,
            odd_labels: false,
            def_names: DEF_NAMES,
            empty: true,
            ident_methods: false,
            wide_table: false,
        }
    }
}

#[derive(Clone, Copy, PartialEq, Eq, Debug)]
pub enum Kind {
    Prim,
    Opt,
    Vec,
    Record,
    Variant,
    Func,
    Service,
}

pub struct DefPlan {
    pub name: String,
    pub kind: Kind,
    pub alias_of: Option<usize>,
}

pub struct Scope {
    pub defs: Vec<DefPlan>,
}
impl Scope {
    pub fn empty() -> Scope {
        Scope { defs: vec![] }
    }
    fn funcs(&self) -> Vec<&str> {
        self.defs.iter().filter(|d| d.kind == Kind::Func).map(|d| d.name.as_str()).collect()
    }
}

pub fn gen_prim(e: &mut Ent, cfg: &TypeCfg) -> Prim {
    loop {
        let p = match e.below(4) {
            0 => *e.pick(&[Prim::Nat, Prim::Int, Prim::Text, Prim::Nat8, Prim::Bool]),
            1 => *e.pick(&[Prim::Null, Prim::Reserved, Prim::Principal, Prim::Nat, Prim::Int]),
            _ => *e.pick(&ALL_PRIMS),
        };
        if p == Prim::Empty && !cfg.empty {
            continue;
        }
        return p;
    }
}

pub fn gen_label(e: &mut Ent, cfg: &TypeCfg) -> Lab {
    if cfg.odd_labels {
        match e.below(4) {
            0 => Lab::Id(labels::field_id(e)),
            _ => Lab::Named(labels::label_name(e)),
        }
    } else {
        match e.below(4) {
            0 => Lab::Id(e.below(6) as u32),
            _ => Lab::Named((*e.pick(&["a", "b", "c", "d", "x", "y", "ok", "err", "head", "tail"])).to_string()),
        }
    }
}

fn gen_fields(e: &mut Ent, sc: &Scope, depth: usize, cfg: &TypeCfg, min: usize) -> Vec<(Lab, Ty)> {
    let n = e.range(min, cfg.max_fields.max(min));
    let mut fs: Vec<(Lab, Ty)> = vec![];
    // tuple-like records now and then
    let tuple = e.ratio(1, 5);
    for i in 0..n {
        let l = if tuple { Lab::Id(i as u32) } else { gen_label(e, cfg) };
        if fs.iter().any(|(k, _)| k.id() == l.id()) {
            continue;
        }
        fs.push((l, gen_ty(e, sc, depth.saturating_sub(1), cfg)));
    }
    fs
}

pub fn gen_func(e: &mut Ent, sc: &Scope, depth: usize, cfg: &TypeCfg) -> Ty {
    let na = e.range(0, 3);
    let nr = e.range(0, 2);
    let mode = match e.below(6) {
        0 => vec![Mode::Query],
        1 => vec![Mode::Oneway],
        2 => vec![Mode::CompositeQuery],
        _ => vec![],
    };
    let args = (0..na).map(|_| gen_ty(e, sc, depth.saturating_sub(1), cfg)).collect();
    let rets = if mode == vec![Mode::Oneway] {
        vec![]
    } else {
        (0..nr).map(|_| gen_ty(e, sc, depth.saturating_sub(1), cfg)).collect()
    };
    Ty::Func { args, rets, modes: mode }
}

pub fn gen_method_name(e: &mut Ent, cfg: &TypeCfg) -> String {
    if cfg.ident_methods {
        return match e.below(4) {
            0 => (*e.pick(labels::MOTOKO_KW)).to_string(),
            1 => (*e.pick(labels::JS_KW)).to_string(),
            2 => (*e.pick(labels::RUST_KW)).to_string(),
            _ => (*e.pick(labels::IDENTS)).to_string(),
        };
    }
    if cfg.odd_labels {
        labels::label_name(e)
    } else {
        (*e.pick(&["f", "g", "h", "get", "set", "m1", "m2"])).to_string()
    }
}

pub fn gen_service(e: &mut Ent, sc: &Scope, depth: usize, cfg: &TypeCfg) -> Ty {
    let n = e.range(0, 3);
    let mut ms: Vec<(String, Ty)> = vec![];
    let funcs = sc.funcs();
    for _ in 0..n {
        let name = gen_method_name(e, cfg);
        if ms.iter().any(|(k, _)| *k == name) {
            continue;
        }
        let t = if !funcs.is_empty() && e.ratio(1, 3) {
            Ty::Var(funcs[e.below(funcs.len())].to_string())
        } else {
            gen_func(e, sc, depth, cfg)
        };
        ms.push((name, t));
    }
    Ty::Service(ms)
}

pub fn gen_kind(e: &mut Ent, cfg: &TypeCfg) -> Kind {
    let ks: &[Kind] = if cfg.refs {
        &[Kind::Record, Kind::Record, Kind::Variant, Kind::Variant, Kind::Opt, Kind::Vec, Kind::Prim, Kind::Func, Kind::Service]
    } else {
        &[Kind::Record, Kind::Record, Kind::Variant, Kind::Variant, Kind::Opt, Kind::Vec, Kind::Prim]
    };
    *e.pick(ks)
}

pub fn gen_of_kind(e: &mut Ent, k: Kind, sc: &Scope, depth: usize, cfg: &TypeCfg) -> Ty {
    match k {
        Kind::Prim => Ty::Prim(gen_prim(e, cfg)),
        Kind::Opt => Ty::opt(gen_ty(e, sc, depth.saturating_sub(1), cfg)),
        Kind::Vec => Ty::vec(gen_ty(e, sc, depth.saturating_sub(1), cfg)),
        Kind::Record => Ty::Record(gen_fields(e, sc, depth, cfg, 0)),
        Kind::Variant => Ty::Variant(gen_fields(e, sc, depth, cfg, 0)),
        Kind::Func => gen_func(e, sc, depth, cfg),
        Kind::Service => gen_service(e, sc, depth, cfg),
    }
}

/// A type over the scope's names.
pub fn gen_ty(e: &mut Ent, sc: &Scope, depth: usize, cfg: &TypeCfg) -> Ty {
    if !sc.defs.is_empty() && e.ratio(1, 3) {
        return Ty::Var(sc.defs[e.below(sc.defs.len())].name.clone());
    }
    if depth == 0 || e.ratio(2, 5) {
        return Ty::Prim(gen_prim(e, cfg));
    }
    let k = gen_kind(e, cfg);
    gen_of_kind(e, k, sc, depth, cfg)
}

/// Environment with 0..max_defs definitions (recursion, mutual recursion,
/// aliases of primitives, alias chains to earlier definitions).
pub fn gen_env(e: &mut Ent, cfg: &TypeCfg) -> (Env, Scope) {
    let n = e.range(0, cfg.max_defs);
    let mut sc = Scope { defs: vec![] };
    for i in 0..n {
        let mut name = (*e.pick(cfg.def_names)).to_string();
        while sc.defs.iter().any(|d| d.name == name) {
            name.push('_');
            name.push_str(&i.to_string());
        }
        if i > 0 && e.ratio(1, 6) {
            let j = e.below(i);
            let kind = sc.defs[j].kind;
            sc.defs.push(DefPlan { name, kind, alias_of: Some(j) });
        } else {
            let kind = gen_kind(e, cfg);
            sc.defs.push(DefPlan { name, kind, alias_of: None });
        }
    }
    let mut env = Env::default();
    for i in 0..n {
        let body = match sc.defs[i].alias_of {
            Some(j) => Ty::Var(sc.defs[j].name.clone()),
            None => gen_of_kind(e, sc.defs[i].kind, &sc, cfg.max_depth, cfg),
        };
        env.defs.push((sc.defs[i].name.clone(), body));
    }
    (env, sc)
}

/// Wrap `t` in `n` nested `opt`/`vec` constructors (each a distinct table entry).
pub fn deep_wrap(e: &mut Ent, t: Ty, n: usize) -> Ty {
    let mut t = t;
    for _ in 0..n {
        t = if e.ratio(3, 4) { Ty::Opt(Box::new(t)) } else { Ty::Vec(Box::new(t)) };
    }
    t
}
