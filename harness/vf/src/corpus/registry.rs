//! Registry of monomorphic corpus types behind a dynamic interface.

use super::derived::*;
use super::{Corpus, HMap, HSet};
use crate::engine::panics::{guard, PanicInfo};
use crate::gen::Ent;
use crate::refmodel::rval::RVal;
use candid::de::{DecoderConfig, IDLDeserialize};
use candid::ser::IDLBuilder;
use candid::types::bounded_vec::{BoundedVec, UNBOUNDED};
use candid::types::Type;
use candid::{Decode, Encode, Int, Nat, Principal, Reserved};
use std::collections::{BTreeMap, BTreeSet, BinaryHeap, LinkedList, VecDeque};
use std::marker::PhantomData;

pub struct Encoded {
    pub bytes: Vec<u8>,
    /// abstract value in wire order
    pub wire: RVal,
    /// abstract value with unordered containers sorted
    pub canon: RVal,
    pub is_default: bool,
}

pub struct DecodedNative {
    pub canon: RVal,
    pub wire: RVal,
    /// cost reported by the deserializer when a config with quotas was given
    pub cost: Option<(Option<usize>, Option<usize>)>,
}

#[derive(Clone, Copy, Debug, PartialEq, Eq)]
pub enum Api {
    /// Encode! / Decode!
    Macros,
    /// encode_args / decode_args (tuple)
    Args,
    /// IDLBuilder::arg + IDLDeserialize::get_value + done
    Builder,
}

pub trait TypeOps: Send + Sync {
    fn name(&self) -> &'static str;
    /// T::ty() on the current thread
    fn ty(&self) -> Type;
    /// generate a value and encode it through `api`
    fn gen_encode(&self, e: &mut Ent, depth: usize, api: Api) -> Result<Result<Encoded, String>, PanicInfo>;
    /// generate a value and append it as one more argument of a builder
    fn gen_into_builder(&self, e: &mut Ent, depth: usize, b: &mut IDLBuilder) -> Result<(RVal, RVal), String>;
    /// decode a message holding one value of this type
    fn decode(&self, bytes: &[u8], api: Api, cfg: Option<&DecoderConfig>) -> Result<Result<DecodedNative, String>, PanicInfo>;
    /// decode the next value from an open deserializer
    fn decode_next(&self, de: &mut IDLDeserialize) -> Result<(RVal, RVal), String>;
    fn tags(&self) -> &'static [&'static str];
    /// TypeContainer::add::<T>() on a fresh container; returns the exported type and environment
    fn container_add(&self) -> (Type, candid::TypeEnv);
    /// add T to a shared TypeContainer
    fn add_to(&self, c: &mut candid::types::internal::TypeContainer) -> Type;
}

pub struct Ops<T> {
    name: &'static str,
    tags: &'static [&'static str],
    _p: PhantomData<fn() -> T>,
}

impl<T: Corpus + 'static> TypeOps for Ops<T> {
    fn name(&self) -> &'static str {
        self.name
    }
    fn tags(&self) -> &'static [&'static str] {
        self.tags
    }
    fn ty(&self) -> Type {
        T::ty()
    }
    fn gen_encode(&self, e: &mut Ent, depth: usize, api: Api) -> Result<Result<Encoded, String>, PanicInfo> {
        let v = T::gen(e, depth);
        let wire = v.to_rval();
        let canon = v.canon();
        let is_default = v.is_default();
        let r = guard(|| match api {
            Api::Macros => Encode!(&v).map_err(|e| format!("{e:?}")),
            Api::Args => candid::utils::encode_args_ref(&(&v,)).map_err(|e| format!("{e:?}")),
            Api::Builder => {
                let mut b = IDLBuilder::new();
                b.arg(&v).map_err(|e| format!("{e:?}"))?;
                b.serialize_to_vec().map_err(|e| format!("{e:?}"))
            }
        })?;
        Ok(r.map(|bytes| Encoded {
            bytes,
            wire,
            canon,
            is_default,
        }))
    }
    fn gen_into_builder(&self, e: &mut Ent, depth: usize, b: &mut IDLBuilder) -> Result<(RVal, RVal), String> {
        let v = T::gen(e, depth);
        b.arg(&v).map_err(|e| format!("{e:?}"))?;
        Ok((v.to_rval(), v.canon()))
    }
    fn decode(&self, bytes: &[u8], api: Api, cfg: Option<&DecoderConfig>) -> Result<Result<DecodedNative, String>, PanicInfo> {
        guard(|| -> Result<DecodedNative, String> {
            let (v, cost): (T, _) = match (api, cfg) {
                (Api::Macros, None) => (Decode!(bytes, T).map_err(|e| format!("{e:?}"))?, None),
                (Api::Args, None) => {
                    let (v,): (T,) = candid::decode_args(bytes).map_err(|e| format!("{e:?}"))?;
                    (v, None)
                }
                (Api::Builder, None) => {
                    let mut de = IDLDeserialize::new(bytes).map_err(|e| format!("{e:?}"))?;
                    let v = de.get_value::<T>().map_err(|e| format!("{e:?}"))?;
                    de.done().map_err(|e| format!("{e:?}"))?;
                    (v, None)
                }
                (Api::Args, Some(cfg)) => {
                    let ((v,), c): ((T,), _) = candid::utils::decode_args_with_config_debug(bytes, cfg).map_err(|e| format!("{e:?}"))?;
                    (v, Some((c.decoding_quota, c.skipping_quota)))
                }
                (Api::Macros, Some(cfg)) => {
                    let (v, c): (T, _) = Decode!(@Debug [cfg.clone()]; bytes, T).map_err(|e| format!("{e:?}"))?;
                    (v, Some((c.decoding_quota, c.skipping_quota)))
                }
                (Api::Builder, Some(cfg)) => {
                    let mut de = IDLDeserialize::new_with_config(bytes, cfg).map_err(|e| format!("{e:?}"))?;
                    let v = de.get_value::<T>().map_err(|e| format!("{e:?}"))?;
                    de.done().map_err(|e| format!("{e:?}"))?;
                    let c = de.get_config().compute_cost(cfg);
                    (v, Some((c.decoding_quota, c.skipping_quota)))
                }
            };
            Ok(DecodedNative {
                canon: v.canon(),
                wire: v.to_rval(),
                cost,
            })
        })
    }
    fn decode_next(&self, de: &mut IDLDeserialize) -> Result<(RVal, RVal), String> {
        let v = de.get_value::<T>().map_err(|e| format!("{e:?}"))?;
        Ok((v.to_rval(), v.canon()))
    }
    fn add_to(&self, c: &mut candid::types::internal::TypeContainer) -> Type {
        c.add::<T>()
    }
    fn container_add(&self) -> (Type, candid::TypeEnv) {
        let mut c = candid::types::internal::TypeContainer::new();
        let t = c.add::<T>();
        (t, c.env)
    }
}

macro_rules! reg {
    ($v:ident; $( [$($tag:literal),*] $t:ty ),* $(,)?) => {
        $(
            $v.push(Box::new(Ops::<$t> { name: stringify!($t), tags: &[$($tag),*], _p: PhantomData }) as Box<dyn TypeOps>);
        )*
    };
}

type B8 = BoundedVec<8, UNBOUNDED, UNBOUNDED, u8>;
type B8T = BoundedVec<UNBOUNDED, 64, UNBOUNDED, Vec<u8>>;
type B8E = BoundedVec<UNBOUNDED, UNBOUNDED, 5, String>;
type BAll = BoundedVec<4, 40, 16, String>;
type BU64 = BoundedVec<3, 24, 8, u64>;
type BP = BoundedVec<5, UNBOUNDED, 10, Principal>;
type B0 = BoundedVec<0, UNBOUNDED, UNBOUNDED, u64>;

pub fn build() -> Vec<Box<dyn TypeOps>> {
    let mut v: Vec<Box<dyn TypeOps>> = vec![];
    reg!(v;
        ["prim"] bool, ["prim"] u8, ["prim"] u16, ["prim"] u32, ["prim"] u64, ["prim"] i8, ["prim"] i16, ["prim"] i32, ["prim"] i64,
        ["prim"] f32, ["prim"] f64, ["prim","big","host128"] u128, ["prim","big","host128"] i128, ["prim","big"] Nat, ["prim","big"] Int,
        ["prim"] String, ["prim"] Principal, ["prim"] (), ["prim"] Reserved, ["bytes"] serde_bytes::ByteBuf,
        // options
        ["opt"] Option<bool>, ["opt"] Option<u8>, ["opt","big"] Option<Nat>, ["opt","big"] Option<Int>, ["opt"] Option<String>,
        ["opt"] Option<Option<u8>>, ["opt"] Option<()>, ["opt"] Option<Reserved>, ["opt"] Option<Vec<u8>>, ["opt","big"] Option<Vec<Nat>>,
        ["opt"] Option<Option<Option<Int>>>, ["opt"] Option<Principal>, ["opt"] Option<(u8, String)>,
        // primitive vectors (bulk path)
        ["primvec"] Vec<bool>, ["primvec"] Vec<u8>, ["primvec"] Vec<u16>, ["primvec"] Vec<u32>, ["primvec"] Vec<u64>,
        ["primvec"] Vec<i8>, ["primvec"] Vec<i16>, ["primvec"] Vec<i32>, ["primvec"] Vec<i64>, ["primvec"] Vec<f32>, ["primvec"] Vec<f64>,
        // big-number vectors
        ["bigvec","big"] Vec<Nat>, ["bigvec","big"] Vec<Int>, ["bigvec","big","host128"] Vec<u128>, ["bigvec","big","host128"] Vec<i128>,
        // other vectors and sequences
        ["vec"] Vec<String>, ["vec"] Vec<Principal>, ["vec"] Vec<()>, ["vec"] Vec<Reserved>, ["vec","derived"] Vec<EmptyRec>, ["vec"] Vec<Option<u8>>, ["vec","big"] Vec<Option<Nat>>,
        ["vec","primvec"] Vec<Vec<u8>>, ["vec","bigvec","big"] Vec<Vec<Nat>>, ["vec"] Vec<Vec<Vec<u16>>>, ["vec"] Vec<(u8, String)>, ["vec"] Vec<serde_bytes::ByteBuf>,
        ["seq","primvec"] VecDeque<u8>, ["seq","primvec"] VecDeque<i64>, ["seq","bigvec","big"] VecDeque<Nat>, ["seq"] VecDeque<String>,
        ["seq","primvec"] LinkedList<u32>, ["seq","bigvec","big"] LinkedList<Int>, ["seq"] LinkedList<Option<bool>>,
        ["set","primvec"] BTreeSet<u8>, ["set","primvec"] BTreeSet<i32>, ["set","bigvec","big"] BTreeSet<Nat>, ["set","bigvec","big"] BTreeSet<Int>, ["set"] BTreeSet<String>, ["set"] BTreeSet<Principal>, ["set"] BTreeSet<(u8, bool)>,
        ["set","primvec"] HSet<u16>, ["set"] HSet<String>, ["set","bigvec","big"] HSet<Nat>, ["set","primvec"] BinaryHeap<u64>, ["set","bigvec","big"] BinaryHeap<Int>,
        ["array","primvec"] [u8; 4], ["array","primvec"] [u32; 3], ["array"] [String; 2], ["array","bigvec","big"] [Nat; 3], ["array","primvec"] [u8; 0], ["array"] [Option<u8>; 2],
        // maps: text keys (text-key fast path)
        ["map","textkey"] BTreeMap<String, String>, ["map","textkey","bigval","big"] BTreeMap<String, Nat>, ["map","textkey","bigval","big"] BTreeMap<String, Int>, ["map","textkey"] BTreeMap<String, u8>,
        ["map","textkey"] BTreeMap<String, u64>, ["map","textkey"] BTreeMap<String, f64>, ["map","textkey","primvec"] BTreeMap<String, Vec<u8>>, ["map","textkey","bigvec","big"] BTreeMap<String, Vec<Nat>>,
        ["map","textkey","big"] BTreeMap<String, Option<Int>>, ["map","textkey"] BTreeMap<String, S1>, ["map","textkey","nested"] BTreeMap<String, BTreeMap<String, Nat>>,
        ["map","textkey","nested"] BTreeMap<String, BTreeMap<Int, String>>, ["map","textkey"] BTreeMap<String, ()>, ["map","textkey"] BTreeMap<String, (String, Nat)>,
        // maps: non-text keys
        ["map","bigval","big"] BTreeMap<u8, Nat>, ["map","bigval","big"] BTreeMap<u8, Int>, ["map"] BTreeMap<u8, String>, ["map"] BTreeMap<u64, u64>, ["map","bigval","big"] BTreeMap<u64, Int>,
        ["map"] BTreeMap<i32, String>, ["map","bigval","big"] BTreeMap<i32, Nat>, ["map"] BTreeMap<bool, u8>, ["map","bigval","big"] BTreeMap<bool, Int>,
        ["map","bigkey","big"] BTreeMap<Nat, String>, ["map","bigkey","bigval","big"] BTreeMap<Nat, Nat>, ["map","bigkey","bigval","big"] BTreeMap<Nat, Int>, ["map","bigkey","big"] BTreeMap<Nat, u8>,
        ["map","bigkey","big"] BTreeMap<Int, String>, ["map","bigkey","bigval","big"] BTreeMap<Int, Nat>, ["map","bigkey","bigval","big"] BTreeMap<Int, Int>, ["map","bigkey","big"] BTreeMap<Int, Vec<u8>>,
        ["map","bigval","big"] BTreeMap<Principal, Int>, ["map","bigval","big"] BTreeMap<Principal, Nat>, ["map"] BTreeMap<Principal, String>,
        ["map","bigval","big"] BTreeMap<(u8, String), Nat>, ["map"] BTreeMap<(u8, String), String>, ["map","bigval","big"] BTreeMap<Vec<u8>, Int>, ["map"] BTreeMap<Vec<u8>, Vec<u8>>,
        ["map","nested","bigval","big"] BTreeMap<u8, BTreeMap<String, Nat>>, ["map","nested","bigval","big"] BTreeMap<Int, BTreeMap<Int, Int>>, ["map","nested","bigval","big"] BTreeMap<String, BTreeMap<u8, Int>>,
        ["map","bigval","big"] BTreeMap<u16, Option<Nat>>, ["map","bigvec","big"] BTreeMap<u8, Vec<Int>>,
        ["map","hash","textkey"] HMap<String, String>, ["map","hash","textkey","bigval","big"] HMap<String, Nat>, ["map","hash","bigval","big"] HMap<u8, Int>, ["map","hash","bigkey","bigval","big"] HMap<Nat, Nat>, ["map","hash"] HMap<u32, Vec<u8>>,
        // containers of maps
        ["vec","map","bigval","big"] Vec<BTreeMap<String, Nat>>, ["vec","map","bigkey","big"] Vec<BTreeMap<Int, Nat>>, ["opt","map","textkey"] Option<BTreeMap<String, String>>, ["opt","map","bigval","big"] Option<BTreeMap<u8, Int>>,
        ["vec","map"] Vec<(BTreeMap<String, u8>, Nat)>,
        // wrappers
        ["wrap"] Box<u8>, ["wrap","big"] Box<Nat>, ["wrap"] std::rc::Rc<String>, ["wrap","primvec"] std::sync::Arc<Vec<u8>>, ["wrap"] std::cell::Cell<u32>, ["wrap","big"] std::cell::RefCell<Int>,
        ["wrap"] std::borrow::Cow<'static, String>, ["wrap"] std::cmp::Reverse<i16>, ["wrap","primvec"] Box<Vec<u64>>,
        // vectors of wrappers around fixed-width numbers: same Candid type as the plain vector, different memory layout
        ["vec","wrap"] Vec<Box<u32>>, ["vec","wrap"] Vec<std::rc::Rc<u64>>, ["vec","wrap"] Vec<std::sync::Arc<i16>>, ["vec","wrap"] Vec<Box<f64>>, ["vec","wrap"] Vec<std::cell::RefCell<u32>>,
        ["vec","wrap"] Vec<std::cell::Cell<u16>>, ["vec","wrap"] Vec<std::cmp::Reverse<u8>>, ["vec","wrap"] Vec<Box<bool>>, ["vec","wrap","opt"] Option<Vec<Box<i64>>>, ["array","wrap"] [Box<u16>; 3],
        ["variant"] Result<u8, String>, ["variant","big"] Result<Nat, Int>, ["variant"] Result<(), ()>, ["variant","map"] Result<BTreeMap<String, Nat>, Vec<u8>>, ["variant"] candid::MotokoResult<u8, String>, ["variant","big"] candid::MotokoResult<Vec<Nat>, Option<Int>>,
        // tuples
        ["tuple"] (u8,), ["tuple"] (u8, String), ["tuple","big"] (Nat, Int, String), ["tuple"] (u8, u16, u32, u64), ["tuple","big"] (bool, String, Nat, Vec<u8>, Option<Int>),
        ["tuple","wide"] (u8, u8, u8, u8, u8, u8, u8, u8), ["tuple","wide","big"] (u8, Nat, String, Int, bool, u64, Vec<u8>, Option<u8>, u8, u8, u8, u8, u8, u8, u8, Nat),
        ["tuple","map"] (BTreeMap<String, Nat>, BTreeMap<Int, Nat>), ["tuple"] ((u8, u8), (String, (bool, ()))),
        // bounded vectors
        ["bounded","primvec","L=8","elem=u8"] B8, ["bounded","TS=64","elem=vecu8"] B8T, ["bounded","ES=5","elem=string"] B8E, ["bounded","L=4","TS=40","ES=16","elem=string"] BAll, ["bounded","primvec","L=3","TS=24","ES=8","elem=u64"] BU64, ["bounded","L=5","ES=10","elem=principal"] BP, ["bounded","L=0","elem=u64"] B0,
        // derived
        ["derived"] S1, ["derived","big"] S2, ["derived","big","rename"] S3, ["derived"] Unit, ["derived"] EmptyRec, ["derived"] NewT, ["derived","big"] TupS,
        ["derived","generic"] Gen<u8, String>, ["derived","generic","big"] Gen<Nat, Int>, ["derived","generic","map"] Gen<BTreeMap<String, Nat>, Vec<u8>>, ["derived","generic"] Gen<S1, Gen<u8, u8>>,
        ["derived","variant","recursive","big"] E1, ["derived","variant"] Color, ["derived","recursive","big"] List, ["derived","recursive","variant","big"] Tree, ["derived","recursive","map","big"] MutA, ["derived","recursive","map","big"] MutB,
        ["opt","deep"] Opt70, ["vec","opt","deep"] Vec<Opt70>, ["derived","recursive","variant"] TriV, ["derived","recursive"] TriVY, ["derived","recursive"] TriVZ, ["derived","recursive"] TriX, ["derived","recursive"] TriY, ["derived","recursive"] TriZ, ["opt","derived","recursive"] Option<TriZ>, ["vec","derived","recursive"] Vec<TriY>,
        ["vec","derived"] Vec<S1>, ["vec","derived","variant"] Vec<E1>, ["opt","derived","recursive"] Option<List>, ["map","derived","textkey"] BTreeMap<String, E1>, ["map","derived"] BTreeMap<u8, Tree>, ["vec","derived"] Vec<Color>,
        ["reference"] FuncRef, ["reference","recursive"] FuncRec, ["reference"] ServRef, ["reference","derived","map","bigval","big"] Refs, ["reference","vec"] Vec<FuncRef>, ["reference","opt"] Option<ServRef>,
    );
    v
}

pub fn registry() -> &'static Vec<Box<dyn TypeOps>> {
    static R: std::sync::OnceLock<Vec<Box<dyn TypeOps>>> = std::sync::OnceLock::new();
    R.get_or_init(build)
}
