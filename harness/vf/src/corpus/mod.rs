//! Corpus of Rust types with a Candid mapping. Each implements `Corpus`:
//! a generator from entropy and a translation to the abstract value written
//! against the Rust value (not against candid's serializer).

pub mod derived;
pub mod registry;

use crate::gen::labels;
use crate::gen::values::{gen_bigint, gen_biguint, gen_f32_bits, gen_f64_bits, gen_principal};
use crate::gen::Ent;
use crate::refmodel::rval::RVal;
use candid::{CandidType, Int, Nat, Principal, Reserved};
use serde::de::DeserializeOwned;
use std::collections::{BTreeMap, BTreeSet, BinaryHeap, HashMap, HashSet, LinkedList, VecDeque};
use std::hash::BuildHasherDefault;

/// Fixed-seed hasher so hash containers iterate reproducibly.
pub type FixedState = BuildHasherDefault<std::collections::hash_map::DefaultHasher>;
pub type HMap<K, V> = HashMap<K, V, FixedState>;
pub type HSet<K> = HashSet<K, FixedState>;

pub trait Corpus: CandidType + DeserializeOwned + Sized {
    /// Generate a value. `depth` bounds nesting of recursive/collection values.
    fn gen(e: &mut Ent, depth: usize) -> Self;
    /// Abstract value in wire order (what the encoder must put on the wire).
    fn to_rval(&self) -> RVal;
    /// Abstract value with unordered containers sorted (for equality).
    fn canon(&self) -> RVal {
        self.to_rval()
    }
    /// Is the value the type's default (empty container, zero scalar)?
    fn is_default(&self) -> bool {
        false
    }
}

fn coll_len(e: &mut Ent, depth: usize) -> usize {
    if depth == 0 {
        return 0;
    }
    match e.below(12) {
        0 => 0,
        1 => *e.pick(&[130usize, 300]),
        2 => e.range(5, 12),
        _ => e.range(1, 4),
    }
}
#[allow(dead_code)]
fn small_len(e: &mut Ent, depth: usize) -> usize {
    if depth == 0 {
        0
    } else {
        e.range(0, 3)
    }
}

macro_rules! prim_corpus {
    ($t:ty, $var:ident, $gen:expr, $zero:expr) => {
        impl Corpus for $t {
            fn gen(e: &mut Ent, _d: usize) -> Self {
                let f: fn(&mut Ent) -> $t = $gen;
                f(e)
            }
            fn to_rval(&self) -> RVal {
                RVal::$var(self.clone().into())
            }
            fn is_default(&self) -> bool {
                *self == $zero
            }
        }
    };
}

fn edge<T: Copy>(e: &mut Ent, edges: &[T], any: T) -> T {
    if e.ratio(1, 2) {
        *e.pick(edges)
    } else {
        any
    }
}

prim_corpus!(bool, Bool, |e| e.bool(), false);
prim_corpus!(u8, Nat8, |e| { let a = e.u8(); edge(e, &[0, 1, 127, 128, 255], a) }, 0);
prim_corpus!(u16, Nat16, |e| { let a = e.u16(); edge(e, &[0, 1, 255, 256, u16::MAX], a) }, 0);
prim_corpus!(u32, Nat32, |e| { let a = e.u32(); edge(e, &[0, 1, 65536, u32::MAX], a) }, 0);
prim_corpus!(u64, Nat64, |e| { let a = e.u64(); edge(e, &[0, 1, 1 << 32, 1 << 63, u64::MAX], a) }, 0);
prim_corpus!(i8, Int8, |e| { let a = e.u8() as i8; edge(e, &[0, -1, i8::MIN, i8::MAX], a) }, 0);
prim_corpus!(i16, Int16, |e| { let a = e.u16() as i16; edge(e, &[0, -1, i16::MIN, i16::MAX], a) }, 0);
prim_corpus!(i32, Int32, |e| { let a = e.u32() as i32; edge(e, &[0, -1, i32::MIN, i32::MAX], a) }, 0);
prim_corpus!(i64, Int64, |e| { let a = e.u64() as i64; edge(e, &[0, -1, i64::MIN, i64::MAX], a) }, 0);
prim_corpus!(String, Text, |e| labels::text(e), String::new());

impl Corpus for f32 {
    fn gen(e: &mut Ent, _d: usize) -> Self {
        f32::from_bits(gen_f32_bits(e))
    }
    fn to_rval(&self) -> RVal {
        RVal::Float32(self.to_bits())
    }
    fn is_default(&self) -> bool {
        self.to_bits() == 0
    }
}
impl Corpus for f64 {
    fn gen(e: &mut Ent, _d: usize) -> Self {
        f64::from_bits(gen_f64_bits(e))
    }
    fn to_rval(&self) -> RVal {
        RVal::Float64(self.to_bits())
    }
    fn is_default(&self) -> bool {
        self.to_bits() == 0
    }
}
impl Corpus for u128 {
    fn gen(e: &mut Ent, _d: usize) -> Self {
        let a = e.u128();
        edge(e, &[0, 1, 1 << 63, 1 << 64, (1 << 64) - 1, 1 << 127, u128::MAX], a)
    }
    fn to_rval(&self) -> RVal {
        RVal::Nat((*self).into())
    }
    fn is_default(&self) -> bool {
        *self == 0
    }
}
impl Corpus for i128 {
    fn gen(e: &mut Ent, _d: usize) -> Self {
        let a = e.u128() as i128;
        edge(e, &[0, -1, 1 << 63, -(1 << 63), -(1 << 64), i128::MIN, i128::MAX], a)
    }
    fn to_rval(&self) -> RVal {
        RVal::Int((*self).into())
    }
    fn is_default(&self) -> bool {
        *self == 0
    }
}
impl Corpus for Nat {
    fn gen(e: &mut Ent, _d: usize) -> Self {
        Nat(gen_biguint(e))
    }
    fn to_rval(&self) -> RVal {
        RVal::Nat(self.0.clone())
    }
    fn is_default(&self) -> bool {
        self.0 == num_bigint::BigUint::default()
    }
}
impl Corpus for Int {
    fn gen(e: &mut Ent, _d: usize) -> Self {
        Int(gen_bigint(e))
    }
    fn to_rval(&self) -> RVal {
        RVal::Int(self.0.clone())
    }
    fn is_default(&self) -> bool {
        self.0 == num_bigint::BigInt::default()
    }
}
impl Corpus for Principal {
    fn gen(e: &mut Ent, _d: usize) -> Self {
        Principal::from_slice(&gen_principal(e))
    }
    fn to_rval(&self) -> RVal {
        RVal::Principal(self.as_slice().to_vec())
    }
    fn is_default(&self) -> bool {
        self.as_slice().is_empty()
    }
}
impl Corpus for () {
    fn gen(_e: &mut Ent, _d: usize) -> Self {}
    fn to_rval(&self) -> RVal {
        RVal::Null
    }
    fn is_default(&self) -> bool {
        true
    }
}
impl Corpus for Reserved {
    fn gen(_e: &mut Ent, _d: usize) -> Self {
        Reserved
    }
    fn to_rval(&self) -> RVal {
        RVal::Reserved
    }
    fn is_default(&self) -> bool {
        true
    }
}
impl Corpus for serde_bytes::ByteBuf {
    fn gen(e: &mut Ent, d: usize) -> Self {
        let n = coll_len(e, d.max(1));
        serde_bytes::ByteBuf::from(e.bytes_padded(n))
    }
    fn to_rval(&self) -> RVal {
        RVal::Vec(self.iter().map(|b| RVal::Nat8(*b)).collect())
    }
    fn is_default(&self) -> bool {
        self.is_empty()
    }
}

impl<T: Corpus> Corpus for Option<T> {
    fn gen(e: &mut Ent, d: usize) -> Self {
        if d == 0 || e.ratio(1, 4) {
            None
        } else {
            Some(T::gen(e, d - 1))
        }
    }
    fn to_rval(&self) -> RVal {
        RVal::Opt(self.as_ref().map(|v| Box::new(v.to_rval())))
    }
    fn canon(&self) -> RVal {
        RVal::Opt(self.as_ref().map(|v| Box::new(v.canon())))
    }
    fn is_default(&self) -> bool {
        self.is_none()
    }
}

macro_rules! seq_corpus {
    ($name:ident, [$($bound:tt)*], $from:expr) => {
        impl<T: Corpus $($bound)*> Corpus for $name<T> {
            fn gen(e: &mut Ent, d: usize) -> Self {
                let n = coll_len(e, d);
                let v: Vec<T> = (0..n).map(|_| T::gen(e, d.saturating_sub(1))).collect();
                let f: fn(Vec<T>) -> $name<T> = $from;
                f(v)
            }
            fn to_rval(&self) -> RVal {
                RVal::Vec(self.iter().map(|x| x.to_rval()).collect())
            }
            fn canon(&self) -> RVal {
                RVal::Vec(self.iter().map(|x| x.canon()).collect())
            }
            fn is_default(&self) -> bool {
                self.is_empty()
            }
        }
    };
}
seq_corpus!(Vec, [], |v| v);
seq_corpus!(VecDeque, [], |v| v.into_iter().collect());
seq_corpus!(LinkedList, [], |v| v.into_iter().collect());
seq_corpus!(BTreeSet, [+ Ord], |v| v.into_iter().collect());

/// Unordered containers: canon sorts.
fn sorted(mut v: Vec<RVal>) -> Vec<RVal> {
    v.sort_by(|a, b| format!("{a:?}").cmp(&format!("{b:?}")));
    v
}
impl<T: Corpus + Eq + std::hash::Hash> Corpus for HSet<T> {
    fn gen(e: &mut Ent, d: usize) -> Self {
        let n = coll_len(e, d).min(12);
        (0..n).map(|_| T::gen(e, d.saturating_sub(1))).collect()
    }
    fn to_rval(&self) -> RVal {
        RVal::Vec(self.iter().map(|x| x.to_rval()).collect())
    }
    fn canon(&self) -> RVal {
        RVal::Vec(sorted(self.iter().map(|x| x.canon()).collect()))
    }
    fn is_default(&self) -> bool {
        self.is_empty()
    }
}
impl<T: Corpus + Ord> Corpus for BinaryHeap<T> {
    fn gen(e: &mut Ent, d: usize) -> Self {
        let n = coll_len(e, d).min(12);
        (0..n).map(|_| T::gen(e, d.saturating_sub(1))).collect()
    }
    fn to_rval(&self) -> RVal {
        RVal::Vec(self.iter().map(|x| x.to_rval()).collect())
    }
    fn canon(&self) -> RVal {
        RVal::Vec(sorted(self.iter().map(|x| x.canon()).collect()))
    }
    fn is_default(&self) -> bool {
        self.is_empty()
    }
}

fn pair(k: RVal, v: RVal) -> RVal {
    RVal::Record(vec![(0, k), (1, v)])
}
impl<K: Corpus + Ord, V: Corpus> Corpus for BTreeMap<K, V> {
    fn gen(e: &mut Ent, d: usize) -> Self {
        let n = coll_len(e, d).min(20);
        (0..n).map(|_| (K::gen(e, d.saturating_sub(1)), V::gen(e, d.saturating_sub(1)))).collect()
    }
    fn to_rval(&self) -> RVal {
        RVal::Vec(self.iter().map(|(k, v)| pair(k.to_rval(), v.to_rval())).collect())
    }
    fn canon(&self) -> RVal {
        RVal::Vec(self.iter().map(|(k, v)| pair(k.canon(), v.canon())).collect())
    }
    fn is_default(&self) -> bool {
        self.is_empty()
    }
}
impl<K: Corpus + Eq + std::hash::Hash, V: Corpus> Corpus for HMap<K, V> {
    fn gen(e: &mut Ent, d: usize) -> Self {
        let n = coll_len(e, d).min(12);
        (0..n).map(|_| (K::gen(e, d.saturating_sub(1)), V::gen(e, d.saturating_sub(1)))).collect()
    }
    fn to_rval(&self) -> RVal {
        RVal::Vec(self.iter().map(|(k, v)| pair(k.to_rval(), v.to_rval())).collect())
    }
    fn canon(&self) -> RVal {
        RVal::Vec(sorted(self.iter().map(|(k, v)| pair(k.canon(), v.canon())).collect()))
    }
    fn is_default(&self) -> bool {
        self.is_empty()
    }
}

impl<T: Corpus, const N: usize> Corpus for [T; N]
where
    [T; N]: DeserializeOwned,
{
    fn gen(e: &mut Ent, d: usize) -> Self {
        std::array::from_fn(|_| T::gen(e, d.saturating_sub(1)))
    }
    fn to_rval(&self) -> RVal {
        RVal::Vec(self.iter().map(|x| x.to_rval()).collect())
    }
    fn canon(&self) -> RVal {
        RVal::Vec(self.iter().map(|x| x.canon()).collect())
    }
}

macro_rules! wrapper_corpus {
    ($name:ty, $new:expr, $get:expr) => {
        impl<T: Corpus> Corpus for $name
        where
            $name: DeserializeOwned,
        {
            fn gen(e: &mut Ent, d: usize) -> Self {
                let f: fn(T) -> $name = $new;
                f(T::gen(e, d))
            }
            fn to_rval(&self) -> RVal {
                let f: fn(&$name) -> RVal = $get;
                f(self)
            }
            fn canon(&self) -> RVal {
                self.to_rval()
            }
        }
    };
}
wrapper_corpus!(Box<T>, Box::new, |s| (**s).to_rval());
wrapper_corpus!(std::rc::Rc<T>, std::rc::Rc::new, |s| (**s).to_rval());
wrapper_corpus!(std::sync::Arc<T>, std::sync::Arc::new, |s| (**s).to_rval());
wrapper_corpus!(std::cell::RefCell<T>, std::cell::RefCell::new, |s| s.borrow().to_rval());
wrapper_corpus!(std::cmp::Reverse<T>, std::cmp::Reverse, |s| s.0.to_rval());

impl<T: Corpus + Copy> Corpus for std::cell::Cell<T> {
    fn gen(e: &mut Ent, d: usize) -> Self {
        std::cell::Cell::new(T::gen(e, d))
    }
    fn to_rval(&self) -> RVal {
        self.get().to_rval()
    }
}
impl<T: Corpus + Clone> Corpus for std::borrow::Cow<'static, T> {
    fn gen(e: &mut Ent, d: usize) -> Self {
        std::borrow::Cow::Owned(T::gen(e, d))
    }
    fn to_rval(&self) -> RVal {
        self.as_ref().to_rval()
    }
}

impl<T: Corpus, E2: Corpus> Corpus for Result<T, E2> {
    fn gen(e: &mut Ent, d: usize) -> Self {
        if e.bool() {
            Ok(T::gen(e, d))
        } else {
            Err(E2::gen(e, d))
        }
    }
    fn to_rval(&self) -> RVal {
        match self {
            Ok(v) => RVal::Variant(crate::refmodel::rtype::rhash("Ok"), Box::new(v.to_rval())),
            Err(v) => RVal::Variant(crate::refmodel::rtype::rhash("Err"), Box::new(v.to_rval())),
        }
    }
    fn canon(&self) -> RVal {
        match self {
            Ok(v) => RVal::Variant(crate::refmodel::rtype::rhash("Ok"), Box::new(v.canon())),
            Err(v) => RVal::Variant(crate::refmodel::rtype::rhash("Err"), Box::new(v.canon())),
        }
    }
}
impl<T: Corpus, E2: Corpus> Corpus for candid::MotokoResult<T, E2> {
    fn gen(e: &mut Ent, d: usize) -> Self {
        if e.bool() {
            candid::MotokoResult::ok(T::gen(e, d))
        } else {
            candid::MotokoResult::err(E2::gen(e, d))
        }
    }
    fn to_rval(&self) -> RVal {
        match self {
            candid::MotokoResult::ok(v) => RVal::Variant(crate::refmodel::rtype::rhash("ok"), Box::new(v.to_rval())),
            candid::MotokoResult::err(v) => RVal::Variant(crate::refmodel::rtype::rhash("err"), Box::new(v.to_rval())),
        }
    }
    fn canon(&self) -> RVal {
        match self {
            candid::MotokoResult::ok(v) => RVal::Variant(crate::refmodel::rtype::rhash("ok"), Box::new(v.canon())),
            candid::MotokoResult::err(v) => RVal::Variant(crate::refmodel::rtype::rhash("err"), Box::new(v.canon())),
        }
    }
}

macro_rules! tuple_corpus {
    ($($n:tt $t:ident),+) => {
        impl<$($t: Corpus),+> Corpus for ($($t,)+) {
            fn gen(e: &mut Ent, d: usize) -> Self {
                ($($t::gen(e, d.saturating_sub(1)),)+)
            }
            fn to_rval(&self) -> RVal {
                RVal::Record(vec![$(($n, self.$n.to_rval())),+])
            }
            fn canon(&self) -> RVal {
                RVal::Record(vec![$(($n, self.$n.canon())),+])
            }
        }
    };
}
tuple_corpus!(0 A);
tuple_corpus!(0 A, 1 B);
tuple_corpus!(0 A, 1 B, 2 C);
tuple_corpus!(0 A, 1 B, 2 C, 3 D);
tuple_corpus!(0 A, 1 B, 2 C, 3 D, 4 E);
tuple_corpus!(0 A, 1 B, 2 C, 3 D, 4 E, 5 F, 6 G, 7 H);
tuple_corpus!(0 A, 1 B, 2 C, 3 D, 4 E, 5 F, 6 G, 7 H, 8 I, 9 J, 10 K, 11 L, 12 M, 13 N, 14 O, 15 P);

use candid::types::bounded_vec::BoundedVec;

/// Data size of an element as documented for BoundedVec (bytes of payload;
/// a Vec<u8> counts its 24-byte header as well).
pub trait DSize {
    fn dsize(&self) -> usize;
}
impl DSize for u8 {
    fn dsize(&self) -> usize {
        1
    }
}
impl DSize for u64 {
    fn dsize(&self) -> usize {
        8
    }
}
impl DSize for String {
    fn dsize(&self) -> usize {
        self.len()
    }
}
impl DSize for Vec<u8> {
    fn dsize(&self) -> usize {
        std::mem::size_of::<Vec<u8>>() + self.len()
    }
}
impl DSize for Principal {
    fn dsize(&self) -> usize {
        self.as_slice().len()
    }
}

macro_rules! bounded_corpus {
    ($t:ty) => {
        impl<const L: usize, const TS: usize, const ES: usize> Corpus for BoundedVec<L, TS, ES, $t> {
            fn gen(e: &mut Ent, d: usize) -> Self {
                // stay within all three bounds: this is the round-trip domain
                let n = coll_len(e, d.max(1)).min(L).min(40);
                let mut v: Vec<$t> = vec![];
                let mut total = 0usize;
                for _ in 0..n {
                    let x = <$t as Corpus>::gen(e, 1);
                    let sz = x.dsize();
                    if sz > ES || total + sz > TS {
                        break;
                    }
                    total += sz;
                    v.push(x);
                }
                BoundedVec::new(v)
            }
            fn to_rval(&self) -> RVal {
                RVal::Vec(self.get().iter().map(|x| x.to_rval()).collect())
            }
            fn is_default(&self) -> bool {
                self.get().is_empty()
            }
        }
    };
}
bounded_corpus!(u8);
bounded_corpus!(u64);
bounded_corpus!(String);
bounded_corpus!(Vec<u8>);
bounded_corpus!(Principal);
