//! Derived structs/enums, generics, recursive types, references.

use super::Corpus;
use crate::gen::labels;
use crate::gen::values::gen_principal;
use crate::gen::Ent;
use crate::refmodel::rtype::rhash;
use crate::refmodel::rval::RVal;
use candid::{CandidType, Int, Nat, Principal, Reserved};
use serde::Deserialize;
use std::collections::BTreeMap;

fn rec(mut fs: Vec<(&str, RVal)>) -> RVal {
    let mut v: Vec<(u32, RVal)> = fs.drain(..).map(|(n, v)| (rhash(n), v)).collect();
    v.sort_by_key(|f| f.0);
    RVal::Record(v)
}
fn var(name: &str, v: RVal) -> RVal {
    RVal::Variant(rhash(name), Box::new(v))
}
fn tup(vs: Vec<RVal>) -> RVal {
    RVal::Record(vs.into_iter().enumerate().map(|(i, v)| (i as u32, v)).collect())
}

#[derive(CandidType, Deserialize, Debug, Clone, PartialEq)]
pub struct S1 {
    pub a: u8,
    pub b: String,
}
impl Corpus for S1 {
    fn gen(e: &mut Ent, d: usize) -> Self {
        S1 {
            a: u8::gen(e, d),
            b: String::gen(e, d),
        }
    }
    fn to_rval(&self) -> RVal {
        rec(vec![("a", self.a.to_rval()), ("b", self.b.to_rval())])
    }
}

/// Field order in the declaration differs from id order.
#[derive(CandidType, Deserialize, Debug, Clone, PartialEq)]
pub struct S2 {
    pub zebra: Int,
    pub apple: Option<Nat>,
    pub mango: Vec<u16>,
    pub b: bool,
    pub inner: S1,
}
impl Corpus for S2 {
    fn gen(e: &mut Ent, d: usize) -> Self {
        S2 {
            zebra: Int::gen(e, d),
            apple: Option::<Nat>::gen(e, d),
            mango: Vec::<u16>::gen(e, d),
            b: bool::gen(e, d),
            inner: S1::gen(e, d),
        }
    }
    fn to_rval(&self) -> RVal {
        rec(vec![
            ("zebra", self.zebra.to_rval()),
            ("apple", self.apple.to_rval()),
            ("mango", self.mango.to_rval()),
            ("b", self.b.to_rval()),
            ("inner", self.inner.to_rval()),
        ])
    }
}

/// Renames, raw identifiers, keyword and non-ASCII names.
#[derive(CandidType, Deserialize, Debug, Clone, PartialEq)]
pub struct S3 {
    #[serde(rename = "type")]
    pub ty: u32,
    pub r#fn: i16,
    #[serde(rename = "日本")]
    pub nihon: String,
    #[serde(rename = "a b")]
    pub spaced: Nat,
    #[serde(rename = "0")]
    pub zero_name: u8,
    pub reserved: Reserved,
}
impl Corpus for S3 {
    fn gen(e: &mut Ent, d: usize) -> Self {
        S3 {
            ty: u32::gen(e, d),
            r#fn: i16::gen(e, d),
            nihon: String::gen(e, d),
            spaced: Nat::gen(e, d),
            zero_name: u8::gen(e, d),
            reserved: Reserved,
        }
    }
    fn to_rval(&self) -> RVal {
        rec(vec![
            ("type", self.ty.to_rval()),
            ("fn", self.r#fn.to_rval()),
            ("日本", self.nihon.to_rval()),
            ("a b", self.spaced.to_rval()),
            ("0", self.zero_name.to_rval()),
            ("reserved", RVal::Reserved),
        ])
    }
}

#[derive(CandidType, Deserialize, Debug, Clone, PartialEq)]
pub struct Unit;
impl Corpus for Unit {
    fn gen(_e: &mut Ent, _d: usize) -> Self {
        Unit
    }
    fn to_rval(&self) -> RVal {
        RVal::Null
    }
    fn is_default(&self) -> bool {
        true
    }
}

#[derive(CandidType, Deserialize, Debug, Clone, PartialEq)]
pub struct EmptyRec {}
impl Corpus for EmptyRec {
    fn gen(_e: &mut Ent, _d: usize) -> Self {
        EmptyRec {}
    }
    fn to_rval(&self) -> RVal {
        RVal::Record(vec![])
    }
    fn is_default(&self) -> bool {
        true
    }
}

#[derive(CandidType, Deserialize, Debug, Clone, PartialEq)]
pub struct NewT(pub u32);
impl Corpus for NewT {
    fn gen(e: &mut Ent, d: usize) -> Self {
        NewT(u32::gen(e, d))
    }
    fn to_rval(&self) -> RVal {
        self.0.to_rval()
    }
}

#[derive(CandidType, Deserialize, Debug, Clone, PartialEq)]
pub struct TupS(pub u8, pub String, pub Option<Int>);
impl Corpus for TupS {
    fn gen(e: &mut Ent, d: usize) -> Self {
        TupS(u8::gen(e, d), String::gen(e, d), Option::<Int>::gen(e, d))
    }
    fn to_rval(&self) -> RVal {
        tup(vec![self.0.to_rval(), self.1.to_rval(), self.2.to_rval()])
    }
}

#[derive(CandidType, Deserialize, Debug, Clone, PartialEq)]
pub struct Gen<T, U> {
    pub x: T,
    pub y: Option<U>,
    pub z: Vec<T>,
}
impl<T: Corpus, U: Corpus> Corpus for Gen<T, U>
where
    Gen<T, U>: serde::de::DeserializeOwned,
{
    fn gen(e: &mut Ent, d: usize) -> Self {
        Gen {
            x: T::gen(e, d),
            y: Option::<U>::gen(e, d),
            z: Vec::<T>::gen(e, d.min(2)),
        }
    }
    fn to_rval(&self) -> RVal {
        rec(vec![("x", self.x.to_rval()), ("y", self.y.to_rval()), ("z", self.z.to_rval())])
    }
    fn canon(&self) -> RVal {
        rec(vec![("x", self.x.canon()), ("y", self.y.canon()), ("z", self.z.canon())])
    }
}

#[derive(CandidType, Deserialize, Debug, Clone, PartialEq)]
pub enum E1 {
    A,
    B(u8),
    C { x: Int, y: String },
    D(u16, Nat),
    #[serde(rename = "return")]
    Ret(Option<Box<E1>>),
    Zed(Vec<E1>),
}
impl Corpus for E1 {
    fn gen(e: &mut Ent, d: usize) -> Self {
        let k = if d == 0 { e.below(4) } else { e.below(6) };
        match k {
            0 => E1::A,
            1 => E1::B(u8::gen(e, d)),
            2 => E1::C {
                x: Int::gen(e, d),
                y: String::gen(e, d),
            },
            3 => E1::D(u16::gen(e, d), Nat::gen(e, d)),
            4 => E1::Ret(if e.bool() { Some(Box::new(E1::gen(e, d - 1))) } else { None }),
            _ => E1::Zed((0..e.range(0, 3)).map(|_| E1::gen(e, d - 1)).collect()),
        }
    }
    fn to_rval(&self) -> RVal {
        match self {
            E1::A => var("A", RVal::Null),
            E1::B(x) => var("B", x.to_rval()),
            E1::C { x, y } => var("C", rec(vec![("x", x.to_rval()), ("y", y.to_rval())])),
            E1::D(a, b) => var("D", tup(vec![a.to_rval(), b.to_rval()])),
            E1::Ret(o) => var("return", RVal::Opt(o.as_ref().map(|b| Box::new(b.to_rval())))),
            E1::Zed(v) => var("Zed", RVal::Vec(v.iter().map(|x| x.to_rval()).collect())),
        }
    }
}

/// Plain enumeration.
#[derive(CandidType, Deserialize, Debug, Clone, PartialEq)]
pub enum Color {
    Red,
    Green,
    Blue,
}
impl Corpus for Color {
    fn gen(e: &mut Ent, _d: usize) -> Self {
        match e.below(3) {
            0 => Color::Red,
            1 => Color::Green,
            _ => Color::Blue,
        }
    }
    fn to_rval(&self) -> RVal {
        match self {
            Color::Red => var("Red", RVal::Null),
            Color::Green => var("Green", RVal::Null),
            Color::Blue => var("Blue", RVal::Null),
        }
    }
}

#[derive(CandidType, Deserialize, Debug, Clone, PartialEq)]
pub struct List {
    pub head: Int,
    pub tail: Option<Box<List>>,
}
impl Corpus for List {
    fn gen(e: &mut Ent, d: usize) -> Self {
        let n = if d == 0 { 0 } else { e.range(0, 8) };
        let mut l: Option<Box<List>> = None;
        for _ in 0..n {
            l = Some(Box::new(List {
                head: Int::gen(e, 0),
                tail: l,
            }));
        }
        List {
            head: Int::gen(e, 0),
            tail: l,
        }
    }
    fn to_rval(&self) -> RVal {
        rec(vec![
            ("head", self.head.to_rval()),
            ("tail", RVal::Opt(self.tail.as_ref().map(|t| Box::new(t.to_rval())))),
        ])
    }
}

#[derive(CandidType, Deserialize, Debug, Clone, PartialEq)]
pub enum Tree {
    Leaf(Int),
    Node(Box<Tree>, Box<Tree>),
    Forest(Vec<Tree>),
}
impl Corpus for Tree {
    fn gen(e: &mut Ent, d: usize) -> Self {
        if d == 0 {
            return Tree::Leaf(Int::gen(e, 0));
        }
        match e.below(4) {
            0 | 1 => Tree::Leaf(Int::gen(e, 0)),
            2 => Tree::Node(Box::new(Tree::gen(e, d - 1)), Box::new(Tree::gen(e, d - 1))),
            _ => Tree::Forest((0..e.range(0, 3)).map(|_| Tree::gen(e, d - 1)).collect()),
        }
    }
    fn to_rval(&self) -> RVal {
        match self {
            Tree::Leaf(i) => var("Leaf", i.to_rval()),
            Tree::Node(a, b) => var("Node", tup(vec![a.to_rval(), b.to_rval()])),
            Tree::Forest(v) => var("Forest", RVal::Vec(v.iter().map(|x| x.to_rval()).collect())),
        }
    }
}

/// `opt^70 nat8`: a type table with more than 64 entries (table indices above 63
/// need two SLEB128 bytes).
macro_rules! nest_opt {
    ($t:ty;) => { $t };
    ($t:ty; $h:tt $($r:tt)*) => { nest_opt!(Option<$t>; $($r)*) };
}
pub type Opt70 = nest_opt!(u8; x x x x x x x x x x x x x x x x x x x x x x x x x x x x x x x x x x x x x x x x x x x x x x x x x x x x x x x x x x x x x x x x x x x x x x);

/// Mutually recursive triple (two members reach each other only through the third).
#[derive(CandidType, Deserialize, Debug, Clone, PartialEq)]
pub struct TriX {
    pub y: Option<Box<TriY>>,
    pub z: Option<Box<TriZ>>,
}
#[derive(CandidType, Deserialize, Debug, Clone, PartialEq)]
pub struct TriY {
    pub x: Option<Box<TriX>>,
    pub n: u8,
}
#[derive(CandidType, Deserialize, Debug, Clone, PartialEq)]
pub struct TriZ {
    pub x: Option<Box<TriX>>,
    pub t: String,
}
impl Corpus for TriX {
    fn gen(e: &mut Ent, d: usize) -> Self {
        TriX {
            y: if d == 0 || e.bool() { None } else { Some(Box::new(TriY::gen(e, d - 1))) },
            z: if d == 0 || e.bool() { None } else { Some(Box::new(TriZ::gen(e, d - 1))) },
        }
    }
    fn to_rval(&self) -> RVal {
        rec(vec![
            ("y", RVal::Opt(self.y.as_ref().map(|x| Box::new(x.to_rval())))),
            ("z", RVal::Opt(self.z.as_ref().map(|x| Box::new(x.to_rval())))),
        ])
    }
}
impl Corpus for TriY {
    fn gen(e: &mut Ent, d: usize) -> Self {
        TriY { x: if d == 0 || e.bool() { None } else { Some(Box::new(TriX::gen(e, d - 1))) }, n: u8::gen(e, 0) }
    }
    fn to_rval(&self) -> RVal {
        rec(vec![("x", RVal::Opt(self.x.as_ref().map(|x| Box::new(x.to_rval())))), ("n", self.n.to_rval())])
    }
}
impl Corpus for TriZ {
    fn gen(e: &mut Ent, d: usize) -> Self {
        TriZ { x: if d == 0 || e.bool() { None } else { Some(Box::new(TriX::gen(e, d - 1))) }, t: String::gen(e, 0) }
    }
    fn to_rval(&self) -> RVal {
        rec(vec![("x", RVal::Opt(self.x.as_ref().map(|x| Box::new(x.to_rval())))), ("t", self.t.to_rval())])
    }
}

/// Mutually recursive triple whose hub is an enum.
#[derive(CandidType, Deserialize, Debug, Clone, PartialEq)]
pub enum TriV {
    Y(Box<TriVY>),
    Z(Box<TriVZ>),
    Nil,
}
#[derive(CandidType, Deserialize, Debug, Clone, PartialEq)]
pub struct TriVY {
    pub x: Option<Box<TriV>>,
    pub n: u16,
}
#[derive(CandidType, Deserialize, Debug, Clone, PartialEq)]
pub struct TriVZ {
    pub x: Option<Box<TriV>>,
    pub b: bool,
}
impl Corpus for TriV {
    fn gen(e: &mut Ent, d: usize) -> Self {
        if d == 0 {
            return TriV::Nil;
        }
        match e.below(3) {
            0 => TriV::Y(Box::new(TriVY::gen(e, d - 1))),
            1 => TriV::Z(Box::new(TriVZ::gen(e, d - 1))),
            _ => TriV::Nil,
        }
    }
    fn to_rval(&self) -> RVal {
        match self {
            TriV::Y(y) => var("Y", y.to_rval()),
            TriV::Z(z) => var("Z", z.to_rval()),
            TriV::Nil => var("Nil", RVal::Null),
        }
    }
}
impl Corpus for TriVY {
    fn gen(e: &mut Ent, d: usize) -> Self {
        TriVY { x: if d == 0 || e.bool() { None } else { Some(Box::new(TriV::gen(e, d - 1))) }, n: u16::gen(e, 0) }
    }
    fn to_rval(&self) -> RVal {
        rec(vec![("x", RVal::Opt(self.x.as_ref().map(|x| Box::new(x.to_rval())))), ("n", self.n.to_rval())])
    }
}
impl Corpus for TriVZ {
    fn gen(e: &mut Ent, d: usize) -> Self {
        TriVZ { x: if d == 0 || e.bool() { None } else { Some(Box::new(TriV::gen(e, d - 1))) }, b: bool::gen(e, 0) }
    }
    fn to_rval(&self) -> RVal {
        rec(vec![("x", RVal::Opt(self.x.as_ref().map(|x| Box::new(x.to_rval())))), ("b", self.b.to_rval())])
    }
}

/// Mutually recursive pair.
#[derive(CandidType, Deserialize, Debug, Clone, PartialEq)]
pub struct MutA {
    pub b: Vec<MutB>,
    pub n: Nat,
}
#[derive(CandidType, Deserialize, Debug, Clone, PartialEq)]
pub struct MutB {
    pub a: Option<Box<MutA>>,
    pub m: BTreeMap<String, MutA>,
}
impl Corpus for MutA {
    fn gen(e: &mut Ent, d: usize) -> Self {
        MutA {
            b: if d == 0 { vec![] } else { (0..e.range(0, 2)).map(|_| MutB::gen(e, d - 1)).collect() },
            n: Nat::gen(e, 0),
        }
    }
    fn to_rval(&self) -> RVal {
        rec(vec![("b", RVal::Vec(self.b.iter().map(|x| x.to_rval()).collect())), ("n", self.n.to_rval())])
    }
}
impl Corpus for MutB {
    fn gen(e: &mut Ent, d: usize) -> Self {
        MutB {
            a: if d == 0 || e.bool() { None } else { Some(Box::new(MutA::gen(e, d - 1))) },
            m: if d == 0 {
                BTreeMap::new()
            } else {
                (0..e.range(0, 2)).map(|_| (String::gen(e, 0), MutA::gen(e, d - 1))).collect()
            },
        }
    }
    fn to_rval(&self) -> RVal {
        rec(vec![
            ("a", RVal::Opt(self.a.as_ref().map(|x| Box::new(x.to_rval())))),
            (
                "m",
                RVal::Vec(
                    self.m
                        .iter()
                        .map(|(k, v)| RVal::Record(vec![(0, k.to_rval()), (1, v.to_rval())]))
                        .collect(),
                ),
            ),
        ])
    }
}

// References
candid::define_function!(pub FuncRef : (u8, String) -> (Nat) query);
candid::define_function!(pub FuncRec : (Vec<FuncRec>) -> ());
candid::define_service!(pub ServRef : { "get": candid::func!((u32) -> (String) query); "set": FuncRef::ty() });

impl Corpus for FuncRef {
    fn gen(e: &mut Ent, _d: usize) -> Self {
        FuncRef::new(Principal::from_slice(&gen_principal(e)), labels::label_name(e))
    }
    fn to_rval(&self) -> RVal {
        RVal::Func(self.0.principal.as_slice().to_vec(), self.0.method.clone())
    }
}
impl Corpus for FuncRec {
    fn gen(e: &mut Ent, _d: usize) -> Self {
        FuncRec::new(Principal::from_slice(&gen_principal(e)), labels::label_name(e))
    }
    fn to_rval(&self) -> RVal {
        RVal::Func(self.0.principal.as_slice().to_vec(), self.0.method.clone())
    }
}
impl Corpus for ServRef {
    fn gen(e: &mut Ent, _d: usize) -> Self {
        ServRef::new(Principal::from_slice(&gen_principal(e)))
    }
    fn to_rval(&self) -> RVal {
        RVal::Service(self.0.principal.as_slice().to_vec())
    }
}

/// Struct holding references and a map keyed by principal.
#[derive(CandidType, Deserialize, Debug, Clone, PartialEq)]
pub struct Refs {
    pub f: FuncRef,
    pub s: Option<ServRef>,
    pub owners: BTreeMap<Principal, Int>,
}
impl Corpus for Refs {
    fn gen(e: &mut Ent, d: usize) -> Self {
        Refs {
            f: FuncRef::gen(e, d),
            s: if e.bool() { Some(ServRef::gen(e, d)) } else { None },
            owners: BTreeMap::<Principal, Int>::gen(e, d.min(2)),
        }
    }
    fn to_rval(&self) -> RVal {
        rec(vec![
            ("f", self.f.to_rval()),
            ("s", RVal::Opt(self.s.as_ref().map(|x| Box::new(x.to_rval())))),
            ("owners", self.owners.to_rval()),
        ])
    }
}

/// Every field documented, so that the derive macro's own hash of each field
/// name is observable as the keys of `_ty_doc().fields` (C15).
#[derive(CandidType, Deserialize, Debug, Clone, PartialEq)]
pub struct Documented {
    /// plain
    pub plain_field: u8,
    /// raw identifier
    pub r#type: u8,
    /// renamed to a keyword
    #[serde(rename = "record")]
    pub renamed_kw: u8,
    /// renamed to non-ASCII
    #[serde(rename = "überfeld")]
    pub renamed_unicode: u8,
    /// renamed to something numeric-looking
    #[serde(rename = "4294967295")]
    pub renamed_numeric: u8,
    /// renamed with odd characters
    #[serde(rename = "a,b \"c\"\\")]
    pub renamed_odd: u8,
    /// one of a colliding pair (the other would be `diba`)
    pub ccft2: u8,
}
pub const DOCUMENTED_NAMES: &[&str] = &["plain_field", "type", "record", "überfeld", "4294967295", "a,b \"c\"\\", "ccft2"];

/// Variant tags documented likewise.
#[derive(CandidType, Deserialize, Debug, Clone, PartialEq)]
pub enum DocumentedEnum {
    /// plain
    Plain,
    /// renamed
    #[serde(rename = "日本語")]
    Renamed(u8),
    /// raw
    r#Self_(u8),
    /// struct-like
    WithFields {
        /// inner
        inner_a: u8,
    },
}
pub const DOCUMENTED_ENUM_NAMES: &[&str] = &["Plain", "日本語", "Self_", "WithFields"];
