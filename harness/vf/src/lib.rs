pub mod checks;
pub mod engine;
pub mod gen;
pub mod refmodel;
pub mod corpus;
pub mod jsmini;
pub mod lexers;
