use std::path::PathBuf;
use vf::engine::{self, driver, worker, Tier};

#[global_allocator]
static ALLOC: engine::alloc::Counting = engine::alloc::Counting;

fn arg_val(args: &[String], name: &str) -> Option<String> {
    args.iter()
        .position(|a| a == name)
        .and_then(|i| args.get(i + 1).cloned())
}

fn main() {
    let args: Vec<String> = std::env::args().collect();
    if args.len() < 2 {
        eprintln!("usage: vf run <ID> [--tier quick|thorough] [--cases N] | replay <ID> <file> | worker ... | list");
        std::process::exit(2);
    }
    let seed = arg_val(&args, "--seed")
        .or_else(|| std::env::var("VERIF_SEED").ok())
        .and_then(|s| s.parse::<u64>().ok())
        .unwrap_or(1);
    let tier = arg_val(&args, "--tier")
        .or_else(|| std::env::var("VERIF_TIER").ok())
        .and_then(|s| Tier::parse(&s))
        .unwrap_or(Tier::Quick);
    let code = match args[1].as_str() {
        "list" => {
            for c in engine::registry() {
                println!("{}", c.id());
            }
            0
        }
        "run" if args.get(2).map(|s| s.eq_ignore_ascii_case("C18")).unwrap_or(false) => vf::checks::c18::run(tier, seed),
        "replay" if args.get(2).map(|s| s.eq_ignore_ascii_case("C18")).unwrap_or(false) => {
            let path: PathBuf = args.get(3).cloned().unwrap_or_default().into();
            vf::checks::c18::replay(&path)
        }
        "run" => driver::run(driver::RunArgs {
            id: args.get(2).cloned().unwrap_or_default(),
            tier,
            seed,
            cases_override: arg_val(&args, "--cases").and_then(|s| s.parse().ok()),
        }),
        "replay" => {
            let id = args.get(2).cloned().unwrap_or_default();
            let path: PathBuf = args.get(3).cloned().unwrap_or_default().into();
            driver::replay(&id, &path, args.iter().any(|a| a == "--quiet"))
        }
        "worker" => {
            let id = args.get(2).cloned().unwrap_or_default();
            let check = match engine::find_check(&id) {
                Some(c) => c,
                None => std::process::exit(2),
            };
            let a = worker::WorkerArgs {
                id,
                tier,
                seed,
                shard: arg_val(&args, "--shard").and_then(|s| s.parse().ok()).unwrap_or(0),
                nshards: arg_val(&args, "--nshards").and_then(|s| s.parse().ok()).unwrap_or(1),
                cases: arg_val(&args, "--cases").and_then(|s| s.parse().ok()).unwrap_or(0),
                out: arg_val(&args, "--out").unwrap_or_else(|| ".".into()).into(),
                skip_enum: args.iter().any(|a| a == "--skip-enum"),
            };
            worker::worker_main(check, a)
        }
        other => {
            eprintln!("vf: unknown command {other}");
            2
        }
    };
    std::process::exit(code);
}
