//! Token-level lexers for the binding targets (TypeScript/JavaScript, Motoko,
//! Rust): strings, template strings, line/block/nested comments, identifiers,
//! numbers, punctuation. Used for structural closure checks (C19).

#[derive(Clone, Copy, Debug, PartialEq, Eq)]
pub enum Lang {
    TypeScript,
    Motoko,
    Rust,
}

#[derive(Clone, Debug, PartialEq, Eq)]
pub enum T {
    Ident(String),
    /// decoded content
    Str(String),
    Num(String),
    Punct(char),
    Comment(String),
    /// Rust lifetime or Motoko variant tag marker are lexed as punct + ident
    Char(String),
}

fn is_ident_start(c: char) -> bool {
    c == '_' || c == '$' || c.is_alphabetic()
}
fn is_ident_part(c: char) -> bool {
    c == '_' || c == '$' || c.is_alphanumeric()
}

fn line_terminator(lang: Lang, c: char) -> bool {
    match lang {
        // ECMAScript LineTerminator
        Lang::TypeScript => matches!(c, '\n' | '\r' | '\u{2028}' | '\u{2029}'),
        Lang::Motoko | Lang::Rust => c == '\n',
    }
}

fn decode_escape(lang: Lang, cs: &[char], i: &mut usize, out: &mut String) -> Result<(), String> {
    // cs[*i] is the character after the backslash
    if *i >= cs.len() {
        return Err("unterminated escape".into());
    }
    let e = cs[*i];
    *i += 1;
    match e {
        'n' => out.push('\n'),
        'r' => out.push('\r'),
        't' => out.push('\t'),
        '\\' => out.push('\\'),
        '\'' => out.push('\''),
        '"' => out.push('"'),
        '0' => {
            if lang == Lang::TypeScript && *i < cs.len() && cs[*i].is_ascii_digit() {
                return Err("legacy octal escape".into());
            }
            if lang == Lang::Motoko {
                // Motoko: \xx hex byte escapes
                if *i < cs.len() && cs[*i].is_ascii_hexdigit() {
                    let v = u32::from_str_radix(&format!("0{}", cs[*i]), 16).unwrap();
                    out.push(char::from_u32(v).unwrap());
                    *i += 1;
                    return Ok(());
                }
                return Err("bad \\0 escape in Motoko".into());
            }
            out.push('\0');
        }
        'u' => {
            if *i < cs.len() && cs[*i] == '{' {
                let mut j = *i + 1;
                let mut h = String::new();
                while j < cs.len() && cs[j] != '}' {
                    h.push(cs[j]);
                    j += 1;
                }
                if j >= cs.len() || h.is_empty() || h.len() > 6 || !h.chars().all(|c| c.is_ascii_hexdigit()) {
                    return Err("bad \\u{} escape".into());
                }
                let v = u32::from_str_radix(&h, 16).unwrap();
                match char::from_u32(v) {
                    Some(c) => out.push(c),
                    None => return Err("\\u{} escape is not a scalar value".into()),
                }
                *i = j + 1;
            } else if lang == Lang::TypeScript {
                if *i + 3 >= cs.len() || !cs[*i..*i + 4].iter().all(|c| c.is_ascii_hexdigit()) {
                    return Err("bad \\u escape".into());
                }
                let v = u32::from_str_radix(&cs[*i..*i + 4].iter().collect::<String>(), 16).unwrap();
                out.push(char::from_u32(v).unwrap_or('\u{fffd}'));
                *i += 4;
            } else {
                return Err("bad \\u escape".into());
            }
        }
        'x' if lang != Lang::Motoko => {
            if *i + 1 >= cs.len() || !cs[*i].is_ascii_hexdigit() || !cs[*i + 1].is_ascii_hexdigit() {
                return Err("bad \\x escape".into());
            }
            let v = u32::from_str_radix(&cs[*i..*i + 2].iter().collect::<String>(), 16).unwrap();
            if lang == Lang::Rust && v > 0x7f {
                return Err("\\x escape above 7f in a Rust string".into());
            }
            out.push(char::from_u32(v).unwrap());
            *i += 2;
        }
        '\n' if lang != Lang::Motoko => {
            // line continuation
            if lang == Lang::Rust {
                while *i < cs.len() && cs[*i].is_whitespace() {
                    *i += 1;
                }
            }
        }
        other => match lang {
            Lang::TypeScript => {
                if other.is_ascii_digit() {
                    return Err("octal escape".into());
                }
                out.push(other)
            }
            _ => return Err(format!("unknown escape \\{other}")),
        },
    }
    Ok(())
}

pub fn lex(lang: Lang, src: &str) -> Result<Vec<T>, String> {
    let cs: Vec<char> = src.chars().collect();
    let mut i = 0;
    let mut out = vec![];
    let mut byte_string = false;
    while i < cs.len() {
        let c = cs[i];
        if c.is_whitespace() || c == '\u{feff}' {
            i += 1;
            continue;
        }
        // comments
        if c == '/' && i + 1 < cs.len() && cs[i + 1] == '/' {
            let mut s = String::new();
            while i < cs.len() && !line_terminator(lang, cs[i]) {
                if lang == Lang::Rust && cs[i] == '\r' && i + 1 < cs.len() && cs[i + 1] != '\n' && s.starts_with("///") {
                    return Err("bare CR in a Rust doc comment".into());
                }
                s.push(cs[i]);
                i += 1;
            }
            out.push(T::Comment(s));
            continue;
        }
        if c == '/' && i + 1 < cs.len() && cs[i + 1] == '*' {
            let nested = lang != Lang::TypeScript;
            let mut depth = 1;
            let mut s = String::from("/*");
            i += 2;
            loop {
                if i >= cs.len() {
                    return Err("unterminated block comment".into());
                }
                if cs[i] == '*' && i + 1 < cs.len() && cs[i + 1] == '/' {
                    s.push_str("*/");
                    i += 2;
                    depth -= 1;
                    if depth == 0 {
                        break;
                    }
                    continue;
                }
                if nested && cs[i] == '/' && i + 1 < cs.len() && cs[i + 1] == '*' {
                    s.push_str("/*");
                    i += 2;
                    depth += 1;
                    continue;
                }
                s.push(cs[i]);
                i += 1;
            }
            out.push(T::Comment(s));
            continue;
        }
        // Rust raw strings and raw identifiers
        // byte strings b"..." and br#"..."#: skip the b and lex the rest as a (raw) string
        if lang == Lang::Rust && c == 'b' && i + 1 < cs.len() && (cs[i + 1] == '"' || (cs[i + 1] == 'r' && i + 2 < cs.len() && (cs[i + 2] == '"' || cs[i + 2] == '#'))) {
            i += 1;
            byte_string = true;
            continue;
        }
        if lang == Lang::Rust && c == 'r' && i + 1 < cs.len() && (cs[i + 1] == '"' || cs[i + 1] == '#') {
            let mut j = i + 1;
            let mut hashes = 0;
            while j < cs.len() && cs[j] == '#' {
                hashes += 1;
                j += 1;
            }
            if j < cs.len() && cs[j] == '"' {
                j += 1;
                let mut s = String::new();
                loop {
                    if j >= cs.len() {
                        return Err("unterminated raw string".into());
                    }
                    if cs[j] == '"' && j + hashes < cs.len() && cs[j + 1..j + 1 + hashes].iter().all(|c| *c == '#') {
                        j += 1 + hashes;
                        break;
                    }
                    s.push(cs[j]);
                    j += 1;
                }
                out.push(T::Str(s));
                i = j;
                continue;
            }
            if hashes == 1 && j < cs.len() && is_ident_start(cs[j]) {
                // raw identifier r#name
                let mut s = String::new();
                while j < cs.len() && is_ident_part(cs[j]) {
                    s.push(cs[j]);
                    j += 1;
                }
                out.push(T::Ident(s));
                i = j;
                continue;
            }
        }
        if is_ident_start(c) {
            let mut s = String::new();
            while i < cs.len() && is_ident_part(cs[i]) {
                s.push(cs[i]);
                i += 1;
            }
            out.push(T::Ident(s));
            continue;
        }
        if c.is_ascii_digit() {
            let mut s = String::new();
            while i < cs.len() && (cs[i].is_ascii_alphanumeric() || cs[i] == '_' || cs[i] == '.') {
                s.push(cs[i]);
                i += 1;
            }
            out.push(T::Num(s));
            continue;
        }
        // strings
        let is_str_quote = match lang {
            Lang::TypeScript => c == '\'' || c == '"' || c == '`',
            Lang::Motoko => c == '"',
            Lang::Rust => c == '"',
        };
        if is_str_quote {
            let q = c;
            i += 1;
            let mut s = String::new();
            loop {
                if i >= cs.len() {
                    return Err(format!("unterminated string literal starting with {q}"));
                }
                let d = cs[i];
                if d == q {
                    i += 1;
                    break;
                }
                if q == '`' && d == '$' && i + 1 < cs.len() && cs[i + 1] == '{' {
                    return Err("template substitution ${ inside a template string".into());
                }
                if q != '`' && lang != Lang::Rust && line_terminator(lang, d) && !(lang == Lang::TypeScript && (d == '\u{2028}' || d == '\u{2029}')) {
                    return Err("line terminator inside a string literal".into());
                }
                if d == '\\' {
                    i += 1;
                    // a byte string may hold \x80..\xff
                    if byte_string && i + 2 < cs.len() && cs[i] == 'x' && cs[i + 1].is_ascii_hexdigit() && cs[i + 2].is_ascii_hexdigit() {
                        let v = u32::from_str_radix(&cs[i + 1..i + 3].iter().collect::<String>(), 16).unwrap();
                        s.push(char::from_u32(v).unwrap());
                        i += 3;
                        continue;
                    }
                    decode_escape(lang, &cs, &mut i, &mut s)?;
                    continue;
                }
                s.push(d);
                i += 1;
            }
            out.push(T::Str(s));
            byte_string = false;
            continue;
        }
        if c == '\'' && (lang == Lang::Rust || lang == Lang::Motoko) {
            // char literal or (Rust) lifetime
            if lang == Lang::Rust && i + 2 < cs.len() && is_ident_start(cs[i + 1]) && cs[i + 2] != '\'' {
                let mut j = i + 1;
                let mut s = String::from("'");
                while j < cs.len() && is_ident_part(cs[j]) {
                    s.push(cs[j]);
                    j += 1;
                }
                out.push(T::Char(s));
                i = j;
                continue;
            }
            let mut j = i + 1;
            let mut s = String::new();
            if j < cs.len() && cs[j] == '\\' {
                j += 1;
                decode_escape(lang, &cs, &mut j, &mut s)?;
            } else if j < cs.len() {
                s.push(cs[j]);
                j += 1;
            }
            if j >= cs.len() || cs[j] != '\'' {
                return Err("unterminated character literal".into());
            }
            out.push(T::Char(s));
            i = j + 1;
            continue;
        }
        if c.is_control() {
            return Err(format!("control character U+{:04X} outside strings and comments", c as u32));
        }
        out.push(T::Punct(c));
        i += 1;
    }
    Ok(out)
}

/// Brackets balance (outside strings and comments).
pub fn balanced(toks: &[T]) -> Result<(), String> {
    let mut stack = vec![];
    for t in toks {
        if let T::Punct(c) = t {
            match c {
                '(' | '[' | '{' => stack.push(*c),
                ')' | ']' | '}' => {
                    let want = match c {
                        ')' => '(',
                        ']' => '[',
                        _ => '{',
                    };
                    if stack.pop() != Some(want) {
                        return Err(format!("unbalanced {c}"));
                    }
                }
                _ => {}
            }
        }
    }
    if stack.is_empty() {
        Ok(())
    } else {
        Err(format!("unclosed {:?}", stack))
    }
}

pub fn without_comments(toks: &[T]) -> Vec<T> {
    toks.iter().filter(|t| !matches!(t, T::Comment(_))).cloned().collect()
}
