#[global_allocator]
static ALLOC: vf::engine::alloc::Counting = vf::engine::alloc::Counting;
fn main() {
    let b = hex::decode("4449444c016d7b0100808080808080808040").unwrap();
    let r = candid::IDLArgs::from_bytes(&b);
    println!("{:?}", r.map(|a| a.to_string()));
}
