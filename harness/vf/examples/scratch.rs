use candid_parser::{check_prog, IDLProg, syntax::IDLMergedProg};
use candid::TypeEnv;
use std::str::FromStr;
fn main() {
    let src = r#"
type A = record { "a b" : nat; 5 : opt A; "query" : vec nat8; "it's" : B };
type B = variant { ok; err : text; "new" : record { nat; text } };
type F = func (nat, B) -> (opt A) query;
type S = service { get : F; "set val" : (A) -> () oneway };
service : (nat, opt B) -> {
  m1 : (A, B, record { x : nat; y : record { z : B } }) -> (F, S, vec record { nat; text }) composite_query;
  "return" : (principal, blob, reserved, empty, float32) -> ();
}
"#;
    let ast: IDLProg = src.parse().unwrap();
    let mut env = TypeEnv::new();
    let actor = check_prog(&mut env, &ast).unwrap();
    let ast2: IDLProg = src.parse().unwrap();
    let prog = IDLMergedProg::new(ast2);
    let cfg = candid_parser::bindings::rust::Config::new(candid_parser::configs::Configs::from_str("").unwrap());
    let (o, unused) = candid_parser::bindings::rust::emit_bindgen(&cfg, &env, &actor, &prog);
    println!("{}\nMETHODS {:#?}\nINIT {:?}\n// unused: {unused:?}", o.type_defs, o.methods, o.init_args);
}
