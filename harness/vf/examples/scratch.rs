use candid_parser::{check_prog, IDLProg};
use candid::TypeEnv;
fn main() {
    for src in [
        "type A = service { f : (nat) -> (nat) query; g : () -> (); \"import\" : () -> () }; type B = record { x : A }; service : (nat, B) -> A",
        "service : { f : (nat) -> (nat) query; h : () -> () oneway; var : () -> () }",
        "type S = service { a : () -> () }; service : S",
        "service : (opt nat) -> { f : (nat) -> (nat) query }",
    ] {
        let ast: IDLProg = src.parse().unwrap(); let ast2: IDLProg = src.parse().unwrap(); let merged = candid_parser::syntax::IDLMergedProg::new(ast2);
        let mut env = TypeEnv::new();
        let actor = check_prog(&mut env, &ast).unwrap();
        println!("---- {src}\n{}", candid_parser::bindings::motoko::compile(&env, &actor, &merged));
    }
}
