use candid::{CandidType, Deserialize};
use candid::types::internal::TypeContainer;
#[derive(CandidType, Deserialize)]
pub struct X { y: Option<Box<Y>>, z: Option<Box<Z>> }
#[derive(CandidType, Deserialize)]
pub struct Y { x: Option<Box<X>> }
#[derive(CandidType, Deserialize)]
pub struct Z { x: Option<Box<X>> }
fn main() {
    let mut c = TypeContainer::new();
    let t = c.add::<Y>();
    println!("{t}");
    for (k, v) in c.env.0.iter() { println!("type {k} = {v};"); }
    let mut c = TypeContainer::new();
    let t = c.add::<Z>();
    println!("--\n{t}");
    for (k, v) in c.env.0.iter() { println!("type {k} = {v};"); }
}
