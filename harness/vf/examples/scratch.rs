use candid::{Decode, Encode};
fn main() {
    let bytes = hex::decode("4449444c016c02007b017e01000000").unwrap();
    let r = Decode!(&bytes, (u8,));
    println!("{:?}", r.map_err(|e| e.to_string()));
    #[derive(candid::CandidType, candid::Deserialize, Debug)]
    struct S(u8);
    #[derive(candid::CandidType, candid::Deserialize, Debug)]
    struct S2(u8, bool);
    let b = Encode!(&S2(1, true)).unwrap();
    println!("{:?}", Decode!(&b, (u8,)).map_err(|e| e.to_string()));
    println!("{:?}", Decode!(&b, S2).map_err(|e| e.to_string()));
    let b = Encode!(&(1u8, true, 5u16)).unwrap();
    println!("{:?}", Decode!(&b, (u8,bool)).map_err(|e| e.to_string()));
}
