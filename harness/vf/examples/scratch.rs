use candid_parser::utils::{service_compatible, CandidSource};
fn main() {
    let p1 = "type A = func (service { f : A; g : A }) -> (nat, A) query;\ntype A_1 = record { ok : A; 0 : A };\nservice : { m : () -> (service { f : () -> (nat) composite_query }) }";
    let p2 = "type A = func (service { f : A; g : A }) -> (nat, A) query;\ntype A_1 = record { ok : A; 0 : A };\nservice : { m : () -> (reserved) }";
    println!("{:?}", service_compatible(CandidSource::Text(p1), CandidSource::Text(p2)).map_err(|e| e.to_string()));
    let h = std::thread::Builder::new().stack_size(256<<20).spawn(move || {
        println!("{:?}", service_compatible(CandidSource::Text(p1), CandidSource::Text(p2)).map_err(|e| e.to_string()));
        println!("{:?}", stacker_remaining());
    }).unwrap();
    h.join().unwrap();
}
fn stacker_remaining() -> usize { 0 }
