use candid::{Decode, Encode};
fn main() {
    let bytes = Encode!(&vec![1u8, 2, 3], &7u8).unwrap();
    println!("{:?}", Decode!(&bytes, [u8; 2], u8));
    let bytes = Encode!(&vec![1u16, 2, 3], &7u16).unwrap();
    println!("{:?}", Decode!(&bytes, [u16; 2], u16));
    let bytes = Encode!(&vec!["a".to_string(), "b".to_string(), "c".to_string()], &"z".to_string()).unwrap();
    println!("{:?}", Decode!(&bytes, [String; 2], String));
    let bytes = Encode!(&vec![Some(1u8), None, Some(3)]).unwrap();
    println!("{:?}", Decode!(&bytes, [Option<u8>; 2]));
    let bytes = Encode!(&vec![1u8]).unwrap();
    println!("{:?}", Decode!(&bytes, [u8; 2]));
}
