fn main() {
    let arg = std::env::args().nth(1).unwrap_or_default();
    let s: &str = match arg.as_str() { "1" => "\"\\本\"", "2" => "\"\\é\"", "3" => "\"本\"", "4" => "\"\\a\"", "5" => "\"x\\本\"", _ => "\"\\n\"" };
    println!("input {s:?} bytes {:x?}", s.as_bytes());
    for t in candid_parser::token::Tokenizer::new(s) {
        println!("{t:?}");
    }
}
