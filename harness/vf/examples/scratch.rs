use candid_parser::{check_prog, IDLProg, syntax::IDLMergedProg};
use candid::TypeEnv;
use std::str::FromStr;
fn main() {
    let src = r#"
// doc for A */ `x` ${y}
type A = record { "a b" : nat; 5 : opt A; /* c */ "query" : vec nat8; "it's" : B };
// doc B
type B = variant { ok; err : text; "new" : record { nat; text } };
type F = func (nat, B) -> (opt A) query;
type S = service { get : F; "set val" : (A) -> () oneway };
// service doc
service : (nat, opt B) -> {
  // method doc */
  m1 : (A, B) -> (F, S) composite_query;
  "return" : (principal, blob, reserved, empty, float32) -> ();
}
"#;
    let ast: IDLProg = src.parse().unwrap();
    let mut env = TypeEnv::new();
    let actor = check_prog(&mut env, &ast).unwrap();
    let ast2: IDLProg = src.parse().unwrap();
    let prog = IDLMergedProg::new(ast2);
    let which = std::env::args().nth(1).unwrap_or_default();
    match which.as_str() {
        "ts" => println!("{}", candid_parser::bindings::typescript::compile(&env, &actor, &prog)),
        "mo" => println!("{}", candid_parser::bindings::motoko::compile(&env, &actor, &prog)),
        "rs" => {
            let cfg = candid_parser::bindings::rust::Config::new(candid_parser::configs::Configs::from_str("").unwrap());
            let (s, unused) = candid_parser::bindings::rust::compile(&cfg, &env, &actor, &prog, Default::default());
            println!("{s}\n// unused: {unused:?}");
        }
        _ => println!("{}", candid_parser::bindings::javascript::compile(&env, &actor)),
    }
}
