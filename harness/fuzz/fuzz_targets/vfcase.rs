//! Coverage-guided driver for the case functions of `vf`: the libFuzzer input is
//! the entropy buffer of one case of the check named by VF_FUZZ_ID. A failure
//! whose signature is not an open known finding writes a replay file, prints a
//! VIOLATION line and aborts (libFuzzer then saves the input as a crash file).
#![no_main]
use libfuzzer_sys::fuzz_target;
use std::sync::mpsc::{sync_channel, Receiver, SyncSender};
use std::sync::{Mutex, OnceLock};
use vf::engine::driver::{write_replay, Violation};
use vf::engine::known::Known;
use vf::engine::worker::{run_case, KIND_ENTROPY};
use vf::engine::{Ctx, Outcome, Tier};

#[global_allocator]
static ALLOC: vf::engine::alloc::Counting = vf::engine::alloc::Counting;

type Job = Vec<u8>;
struct Pipe {
    tx: SyncSender<Job>,
    rx: Receiver<Option<(String, String)>>,
}
static PIPE: OnceLock<Mutex<Pipe>> = OnceLock::new();

fn start() -> Mutex<Pipe> {
    let id = std::env::var("VF_FUZZ_ID").expect("VF_FUZZ_ID names the check");
    let (tx, jrx) = sync_channel::<Job>(0);
    let (rtx, rx) = sync_channel::<Option<(String, String)>>(0);
    let check = vf::checks::all().into_iter().find(|c| c.id() == id).expect("unknown check id");
    let stack = check.stack_bytes();
    std::thread::Builder::new()
        .stack_size(stack)
        .spawn(move || {
            // replaces libFuzzer's abort-on-panic hook: panics of the code under
            // test are captured by the case functions and judged by the check
            vf::engine::panics::install_hook();
            let known = Known::load();
            let mut ctx = Ctx::new(Tier::Thorough, false);
            let mut tolerated: u64 = 0;
            for data in jrx {
                let out = run_case(&*check, KIND_ENTROPY, &data, &mut ctx);
                let r = match out {
                    Outcome::Fail(f) => {
                        if known.matches(&id, &f.sig).is_some() {
                            tolerated += 1;
                            let _ = tolerated;
                            None
                        } else {
                            Some((f.sig, f.msg))
                        }
                    }
                    _ => None,
                };
                if rtx.send(r).is_err() {
                    break;
                }
            }
        })
        .expect("spawn case thread");
    Mutex::new(Pipe { tx, rx })
}

fuzz_target!(|data: &[u8]| {
    let p = PIPE.get_or_init(start).lock().unwrap();
    p.tx.send(data.to_vec()).expect("case thread alive");
    match p.rx.recv() {
        Ok(None) => {}
        Ok(Some((sig, msg))) => {
            let id = std::env::var("VF_FUZZ_ID").unwrap();
            let v = Violation { sig, msg, kind: KIND_ENTROPY, data: data.to_vec(), profile: "fuzz".into(), detail: vec![] };
            let path = write_replay(&id, &v);
            eprintln!("FAILURE sig={} profile=fuzz\n  {}", v.sig, v.msg.replace('\n', "\n  "));
            println!("VIOLATION property={} replay={}", id, path.display());
            std::process::abort();
        }
        Err(_) => {
            eprintln!("vfcase: case thread died");
            std::process::abort();
        }
    }
});
