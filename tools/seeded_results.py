#!/usr/bin/env python3
"""Writes /verif/seeded/RESULTS.md from the meta.json files (verdicts recorded by tools/seeded_run.sh)."""
import json, os, glob
ROOT = os.path.dirname(os.path.dirname(os.path.abspath(__file__)))
rows = []
for m in sorted(glob.glob(os.path.join(ROOT, "seeded", "C*", "*", "meta.json"))):
    d = os.path.dirname(m)
    rel = os.path.relpath(d, os.path.join(ROOT, "seeded"))
    j = json.load(open(m))
    checks = j.get("checks", {})
    own = rel.split("/")[0]
    def fmt(c):
        v = checks[c]
        s = v["verdict"]
        if v.get("signature"):
            s += " (`%s`)" % v["signature"].replace("|", "/")[:80]
        return "%s: %s" % (c, s)
    owner = fmt(own) if own in checks else own + ": not run"
    others = "; ".join(fmt(c) for c in sorted(checks) if c != own)
    rows.append((rel, j.get("breadth", ""), j.get("file", "").replace("rust/", ""), j.get("summary", "").replace("|", "/")[:160], owner, others, j.get("note", "")))
out = ["# Seeded changes and what the checks report on them", "",
       "Each change was written by a sub-agent that saw only the property text and a scratch worktree (changes 1-3: first round; 4-5: second round, asked to avoid the obvious slips);",
       "it compiles and passes the repository's 194 tests. Verdicts are from `tools/seeded_run.sh` (quick tier,",
       "seed 1) with the patch applied to /repo's working tree and removed afterwards. `missed` = the check",
       "exited 0; where a miss led to a stronger check, the row shows the verdict after strengthening and the note says so.", "",
       "| change | breadth | file | what it does | owning check | other checks | note |", "|---|---|---|---|---|---|---|"]
for r in rows:
    out.append("| " + " | ".join(r) + " |")
det = sum(1 for r in rows if ": detected" in r[4])
out += ["", "%d changes; owning check detects %d." % (len(rows), det), ""]
open(os.path.join(ROOT, "seeded", "RESULTS.md"), "w").write("\n".join(out))
print("\n".join(out[-3:]))
