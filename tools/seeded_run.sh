#!/bin/bash
# Apply each seeded change under /verif/seeded/<id>/<k>/patch.diff to /repo's working
# tree (never committed), run the listed checks' quick tier, record what each reports,
# and restore /repo. Usage: tools/seeded_run.sh <id>/<k> [CHECK ...]   (default: owning check)
set -u
ROOT=$(cd "$(dirname "$0")/.." && pwd)
what=$1; shift
id=${what%%/*}
checks=${*:-$id}
dir=$ROOT/seeded/$what
[ -f "$dir/patch.diff" ] || { echo "no $dir/patch.diff"; exit 2; }
if [ -n "$(git -C /repo status --porcelain --untracked-files=no)" ]; then echo "/repo is not clean"; exit 2; fi
git -C /repo apply "$dir/patch.diff" 2>/dev/null || git -C /repo apply -C1 "$dir/patch.diff" || { echo "$what patch does not apply"; exit 2; }
trap 'git -C /repo checkout -- .' EXIT
res="{}"
for c in $checks; do
  log=$(mktemp)
  start=$(date +%s)
  ( cd "$ROOT" && ./check $c --tier quick ) > "$log" 2>&1
  rc=$?
  secs=$(( $(date +%s) - start ))
  sig=$(grep -a -m1 "^FAILURE sig=" "$log" | sed 's/^FAILURE sig=//' | cut -c1-120)
  if grep -aq "^VIOLATION property=$c" "$log"; then verdict=detected; elif [ $rc -eq 0 ]; then verdict=missed; else verdict="inconclusive(exit $rc)"; fi
  echo "$what $c $verdict ${secs}s $sig"
  res=$(python3 - "$res" "$c" "$verdict" "$sig" "$secs" <<'PY'
import json,sys
r=json.loads(sys.argv[1]); r[sys.argv[2]]={"verdict":sys.argv[3],"signature":sys.argv[4],"seconds":int(sys.argv[5])}
print(json.dumps(r))
PY
)
  rm -f "$log"
done
python3 - "$dir/meta.json" "$res" <<'PY'
import json,sys
m=json.load(open(sys.argv[1])); m.setdefault("checks",{}).update(json.loads(sys.argv[2]))
json.dump(m,open(sys.argv[1],"w"),indent=1)
PY
