#!/bin/bash
# Sensitivity sweep: revert one fix: commit of /repo at a time (working tree only,
# never committed), run the owning checks' quick tier, expect a VIOLATION, restore.
# Usage: tools/revert_sweep.sh [out-file]
set -u
ROOT=$(cd "$(dirname "$0")/.." && pwd)
OUT=${1:-$ROOT/seeded/REVERT_SWEEP.md}
if [ -n "$(git -C /repo status --porcelain --untracked-files=no)" ]; then echo "/repo is not clean"; exit 2; fi
PAIRS="e3e04dd:C01,C08,C09 7c809ea:C09 34c165f:C02 71c084d:C02 91a4a55:C02,C10 7641e63:C08,C04 980ec9f:C08 5a21cc9:C14,C05 df29b88:C05 d85c02c:C13 4445ee4:C13 03c3252:C13 00e5e11:C13 09093b4:C11 347d90f:C11 9994a7d:C11,C12 41a3ca3:C11 bc0099d:C17 532d025:C17 b677032:C17 81dbf05:C17 0c32232:C19 a03cec2:C19 697771a:C19 1017c08:C20 85931e1:C18 b532da0:C18 7c001db:C12"
mkdir -p "$(dirname "$OUT")"
{
echo "# Revert sweep: each fix: commit reverted in the working tree, owning checks run (quick tier)"
echo
echo "| reverted commit | subject | check | result | first signature |"
echo "|---|---|---|---|---|"
} > "$OUT"
for p in $PAIRS; do
  c=${p%%:*}; ids=${p#*:}
  subj=$(git -C /repo log -1 --format=%s $c | cut -c1-70)
  if ! git -C /repo revert -n --no-edit $c >/dev/null 2>&1; then
    git -C /repo revert --abort >/dev/null 2>&1; git -C /repo reset -q --hard HEAD
    echo "| $c | $subj | - | revert conflicts with later commits, skipped | |" >> "$OUT"
    continue
  fi
  for id in ${ids//,/ }; do
    log=$(mktemp)
    ( cd "$ROOT" && ./check $id --tier quick ) > "$log" 2>&1
    rc=$?
    sig=$(grep -a -m1 "^FAILURE sig=" "$log" | sed 's/^FAILURE sig=//' | cut -c1-90)
    if grep -aq "^VIOLATION property=$id" "$log"; then res="detected (exit $rc)"; else res="NOT detected (exit $rc)"; fi
    echo "| $c | $subj | $id | $res | $sig |" >> "$OUT"
    rm -f "$log"
  done
  git -C /repo reset -q --hard HEAD
done
echo >> "$OUT"
echo "done" >> "$OUT"
