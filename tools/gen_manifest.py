#!/usr/bin/env python3
"""Regenerates /verif/MANIFEST.json from the table below (one row per claimed check)."""
import json, os
ROOT = os.path.dirname(os.path.dirname(os.path.abspath(__file__)))

CHECKS = {
 "C02": dict(
   technique="property-based differential testing against an independent binary-format parser and coercion function (proptest, byte mutation)",
   text="Differential search: the untyped decoder (from_bytes_with_types, get_value_with_type+done, from_bytes) is compared on generated (message, expected types) pairs with an independent implementation of the binary grammar and of the spec's coercion relation (subtyping for references as a greatest fixed point). Messages come from the harness's own encoder over random recursive wire types with layout variations and byte mutations; expected types are upgrade-step neighbours in both directions, opt-wrappings and fresh types. Exploration: deep combinations are sampled; two genuine deviations are listed as known findings.",
   note="Trusts the harness's reading of spec/Candid.md (refmodel, ~2 kLoC); cases the spec leaves open are skipped and counted, not judged.",
   ref="DESIGN.md §5 C02"),
 "C09": dict(
   technique="enumeration + property-based differential testing against an arithmetic (S)LEB128 reference (proptest, two build profiles)",
   text="Differential search: every nat/int decoder and encoder entry point is compared with an independent big-integer definition of (S)LEB128 on all strings up to 2 (quick) / 3 (thorough) bytes, on boundary families around 64 and 128 bits with every final byte and several padding tails, and on generated strings up to 40 bytes; run in a debug-assertion build and in a release-like build so both panics and silent wrap-around are visible. Exploration, not proof: strings outside the enumerated families are only sampled.",
   note="Trusts num-bigint (reference arithmetic only) and the harness's own 60-line LEB128 definition; bytes consumed on rejection are not checked.",
   ref="DESIGN.md §5 C09"),
 "C16": dict(
   technique="enumeration + property-based differential testing against an own CRC-32/base32 principal codec (proptest)",
   text="Differential search against an independent implementation of the textual principal format: all byte strings of length <= 2 with systematic single edits of their text, random strings up to 40 bytes with random edits (substitution, case, dash moves, truncation, extension). Acceptance must coincide with 'lower-case form is the canonical text'. Exploration: longer principals are sampled, not enumerated.",
   note="Trusts the harness's CRC-32/base32 implementation (validated against the IC spec's published vectors in unit tests).",
   ref="DESIGN.md §5 C16"),
}

def main():
    checks = []
    for pid in sorted(CHECKS):
        c = CHECKS[pid]
        checks.append({
            "property_id": pid,
            "quick_cmd": f"./check {pid} --tier quick",
            "thorough_cmd": f"./check {pid} --tier thorough",
            "evidence_file": f"/verif/evidence/{pid}.json",
            "replay_cmd_template": f"./check {pid} --replay {{path}}",
            "engine": "vf",
            "level_claimed": {"category": "exploration", "text": c["text"], "design_ref": c["ref"]},
            "level_note": c["note"],
            "technique": c["technique"],
        })
    props = [json.loads(l)["id"] for l in open(os.path.join(ROOT, "properties.jsonl"))]
    na = [{"property_id": p, "reason": "check not built yet in this session (planned; see DESIGN.md §10)"}
          for p in props if p not in CHECKS]
    m = {
        "version": 1,
        "setup_cmd": "./check build",
        "hooks": {
            "guard": "none (no hook or instrumentation is committed in /repo; the checks observe public APIs only)",
            "enable": "n/a - checks build /repo's crates as plain path dependencies of /verif/harness/vf",
            "baseline_off_cmd": "/verif/tools/repo_tests.sh",
            "source_commits": [],
            "add_only": True,
        },
        "engines": [{
            "name": "vf",
            "path": "/verif/harness/vf",
            "serves_properties": sorted(CHECKS),
            "kind_free_text": "Rust harness: one case function per property decoded from an entropy buffer (arbitrary::Unstructured); driven by proptest (seeded, sharded over 16 worker processes, shrinking), enumerated sub-spaces, and strict replay; worker processes give crash/stack-overflow attribution; counting allocator; evidence writer",
        }],
        "checks": checks,
        "notes": "All commands run from /verif. ./check rebuilds the harness (cargo, offline) against /repo's working tree before every run. VERIF_SEED selects the PRNG seed (default 1). Exit 2 = inconclusive (infrastructure), never a violation. Known findings: /verif/known_findings.json.",
        "not_applicable": na,
    }
    json.dump(m, open(os.path.join(ROOT, "MANIFEST.json"), "w"), indent=1)
    print("wrote MANIFEST.json with", len(checks), "checks;", len(na), "not yet claimed")

main()
