#!/usr/bin/env python3
"""Regenerates /verif/MANIFEST.json from the table below (one row per claimed check)."""
import json, os
ROOT = os.path.dirname(os.path.dirname(os.path.abspath(__file__)))

CHECKS = {
 "C12": dict(
   technique="property-based print/re-check testing with bisimulation of type graphs, over generated programs and Rust-exported environments (proptest)",
   text="Generated well-typed programs (every constructor, odd labels and method names, recursion, aliases, service constructors) are checked from text printed with random shorthands; the type-level printer, the doc-carrying printer and the syntax-tree printer must each produce text that re-checks to an interface bisimilar to the original with the same definition names; service_equal, instantiate_candid and get_metadata must agree; printing is deterministic; environments exported from ~245 Rust types (each alone and after its neighbour on a fresh thread, plus generated histories) are treated likewise. Exploration.",
   note="Equality is bisimilarity computed by the harness; the harness's own emitter is validated against the checker in the same run (checker-misreads-program).",
   ref="DESIGN.md §5 C12"),
 "C14": dict(
   technique="property-based differential testing against an independent well-formedness checker, with single-fault mutants of generated programs (proptest)",
   text="Well-formed generated programs must be accepted and each of eleven single-fault mutant classes (placed at random type positions, behind alias chains, in init args) must be rejected, the verdict re-derived by an independent checker; accepted environments must be closed under trace/as_func/as_service/self-subtype/chase_actor/encoding. Exploration: every fault class is hit thousands of times per quick run.",
   note="Imports are not generated; argument-name and nested-constructor faults exist only at text level.",
   ref="DESIGN.md §5 C14"),
 "C15": dict(
   technique="property-based cross-entry-point consistency testing against an independent hash (proptest + fixed derive/macro checks)",
   text="For label strings from adversarial pools, the library hash, Label equality/order/hash, text values, .did types, typed encoding/decoding and duplicate rejection are checked against the spec hash computed independently; positional shorthand after a named field (values and types); duplicate and descending ids at boundary values in binary headers (records and variants); the derive macro's private hash is observed through _ty_doc() keys of documented structs/enums with renamed/raw/non-ASCII/numeric names; record!/variant! ordering and duplicate panics; 14 colliding pairs. Exploration over labels.",
   note="The derive macro can only be observed for names fixed at compile time.",
   ref="DESIGN.md §5 C15"),
 "C17": dict(
   technique="property-based translation checking: the emitted JavaScript is evaluated by a purpose-built interpreter and compared by bisimulation (proptest)",
   text="The module emitted for generated programs (definition names from JavaScript reserved/strict/module words and their twins, odd method and field names, recursion, init args) is evaluated under ECMAScript module rules by an interpreter of exactly the emitted subset, against an IDL object that builds a type graph; the returned service and init list must be bisimilar to the program's. Exploration.",
   note="No JavaScript engine decides verdicts; the interpreter's reading of ECMAScript lexical and binding rules is trusted (unit-tested).",
   ref="DESIGN.md §5 C17"),
 "C18": dict(
   technique="property-based translation checking by compilation: emitted Rust bindings for generated programs are compiled in batches with rustc and their types compared with the source by bisimulation (proptest + cargo)",
   text="Generated checked programs (definition names from Rust keywords, prelude/candid names and case-conversion twins, odd labels, numeric ids, recursion, anonymous types at every path, init arguments, result-like variants in six spellings, anonymous types whose generated name is also a source definition) are translated by the Rust binding generator; each output becomes a module of one batch crate that is compiled by rustc; a module that does not compile is attributed to its program; every compiled module exports, through TypeContainer, the Candid type of each method argument/result, init argument and definition, which must be bisimilar to the source program's. Four regions where the generator is known to deviate are tolerated by exact signature and counted. Exploration: hundreds of programs per quick run.",
   note="Only the type-level content of the binding is judged (the emitted call stubs are compiled, not executed); agent/stub targets are covered lexically in C19.",
   ref="DESIGN.md §5 C18"),
 "C19": dict(
   technique="property-based totality/determinism testing plus lexical and name-set closure checks and a doc-comment injection metamorphic relation (proptest, per-language lexers)",
   text="All four generators (Rust in three targets) run on generated checked programs printed once with benign and once with hostile doc comments: no panic, identical output on re-run, output lexes and balances under the target's lexical grammar, token streams outside comments are identical for both doc texts, TypeScript/Motoko names are closed and unique, the JavaScript module evaluates under module rules (C17's interpreter), service methods appear exactly once (TypeScript interface, Motoko actor type, Rust call sites), string literals decode to program names. Exploration; no TypeScript/Motoko compiler is available.",
   note="Closure is structural (lexers and name sets), weaker than compiling; Rust is compiled in C18 and JavaScript evaluated in C17.",
   ref="DESIGN.md §5 C19"),
 "C20": dict(
   technique="property-based testing of the random value generator against an independent typing judgement, over seeds and configurations (proptest)",
   text="random::any on generated environments (including uninhabited types), seeds (empty, constant, random up to 4 KiB) and TOML configurations (depth/size/width/range/text/value/scoped) must return Err or values that inhabit the types by an independent typing judgement, survive annotation unchanged and encode; no panic or process death. Exploration; termination is observed, not proved.",
   note="Value depth versus configured depth is a statistic only.",
   ref="DESIGN.md §5 C20"),
 "C11": dict(
   technique="property-based print/parse round-trip testing of untyped values with adversarial text and label pools (proptest)",
   text="Generated canonical values of generated types, with text, labels and method names from pools biased to control characters, NUL, quotes, backslash, keywords and exotic Unicode, big numbers, vectors above the abbreviation threshold and deep nesting, are printed by Display and Debug (IDLArgs and IDLValue), parsed back and re-annotated; the abstract value must be unchanged and printing deterministic. Exploration.",
   note="Finite floats only; comparison is on abstract values (labels by id, floats by bits).",
   ref="DESIGN.md §5 C11"),
 "C13": dict(
   technique="grammar-aware fuzzing of the seven parser entry points (token soups, action-targeted templates, mutated valid sentences) with crash attribution and two build profiles (proptest)",
   text="Inputs from a 230-lexeme alphabet, templates aimed at the grammar's semantic actions and mutated generated programs/types/values are fed to every parser; each must return, its follow-up (type check, printing, encoding) must return, errors must format and carry in-range spans, with no panic or abort in a debug-assertion and a release-like build. Exploration.",
   note="Nesting above 128 is outside the property and skipped.",
   ref="DESIGN.md §5 C13"),
 "C04": dict(
   technique="property-based implication testing: checker-accepted pairs must decode (untyped and native), plus a metamorphic chain relation (proptest)",
   text="For generated (environment, t, t') pairs that the implementation's subtype check accepts (upgrade-step chains and independent types), generated inhabitants of t (also old/new copies of an environment with one edit, where the checker probes below opt) encoded by two encoders must decode at t' to a value of t'; for chains t <: t' <: t'' the direct and the two-step result must be related by opt v ~ null. Natively, every ordered pair of ~230 corpus Rust types that the checker relates is exercised with generated values. Exploration over generated pairs and values.",
   note="Only the implication checker => decoder is judged here; the checker's own answers are C05. Four regions shared with C02/C08/C10 findings are tolerated by exact signature.",
   ref="DESIGN.md §5 C04"),
 "C05": dict(
   technique="enumeration of a small type universe + property-based differential testing against a greatest-fixed-point subtype solver, with metamorphic order/name/history variants (proptest)",
   text="The subtype check is compared with an independent greatest-fixed-point computation of the spec's rules on every ordered pair of a 150-type (thorough: 296-type) universe under single-definition recursive environments, each pair with a fresh memo and with a memo shared along the row, and on generated environments of up to 6 mutually recursive definitions including old/new interface copies with one edit, inline structural types below opt, names unfolded out of phase, and (for the text entry points) separate old and new programs that share definition names; laws (reflexivity, transitivity where the spec relation has it, equality vs bisimilarity) and the text entry points with reordered/renamed definitions are checked on the same cases. Exhaustive only for the stated small universe; exploration beyond.",
   note="Trusts the harness's reading of the subtype rules (60 lines); OptReport::Error mode is not judged; transitivity is not demanded when an outer type mentions `null` (the spec relation itself is not transitive there).",
   ref="DESIGN.md §5 C05"),
 "C06": dict(
   technique="property-based robustness testing / structure-aware fuzzing of all decoder entry points with crash attribution, allocation metering and two build profiles (proptest)",
   text="Generated hostile and mutated messages (random bytes, mutated valid messages, hostile headers with huge counts, 20 000-deep nesting, zero-sized-element bombs, length bombs on every length-prefixed item incl. future-type values - also enumerated: 10 752 combinations of item x declared length x target x quota -, over-long LEB128) are decoded at ~230 native types, generated untyped types and with no type, under quota/error-message/table-size configurations and thread stacks down to 256 KiB, in a debug-assertion and a release-like build, in worker processes so that a stack overflow or abort is attributed to its input. With a decoding quota, peak and single-request allocation on the decoding thread are bounded by explicit linear formulas. Exploration; absence of crashes is not established.",
   note="No step-counter hook: work proportional to the quota is judged by termination and allocation (C07 adds per-value cost lower bounds); a hang becomes exit 2 (inconclusive).",
   ref="DESIGN.md §5 C06"),
 "C07": dict(
   technique="property-based metamorphic testing over quota pairs around the measured cost, with cost lower/upper bounds from an independent coercion trace and cost model (proptest)",
   text="For valid generated messages (untyped with related/unrelated expected types; native corpus types on own and foreign messages, with surplus arguments or record fields, through IDLDeserialize, decode_args_with_config_debug and Decode!(@Debug); argument sequences mixing IDLValue and native reads; 1e3-1e5 zero-sized elements), decoding under quota pairs around the measured cost must succeed exactly at or above the cost, return the unmetered result and report the same cost; cost is bounded below by the number of wire values (skipped ones charged to the skipping quota, also natively) and above by 16x the documented model (per argument: 50x for skipped or untyped ones); the skipping cost is bounded above likewise. Exploration.",
   note="Failures are classified by 'succeeds unmetered, fails metered', not by message text; the documented model is evaluated by the harness.",
   ref="DESIGN.md §5 C07"),
 "C01": dict(
   technique="property-based round-trip testing over a corpus of ~230 Rust types with stateful call histories and a fresh-thread differential (proptest)",
   text="Round-trip search over a cross product of container, key, value and element types (all specialised decoding paths and their nestings, derived/generic/recursive/reference types) with generated values aimed at fast-path boundaries, through three API pairs; each case is preceded by a generated history of 0-12 type derivations, encodes, matching and mismatching decodes, multi-argument messages and abandoned builders on the same thread, and its bytes and result are compared with a fresh thread doing only the round-trip. Exploration: the type corpus is large but finite and values are sampled.",
   note="The abstract value of each Rust value is computed by hand-written code per type (not by candid); unordered containers are compared as multisets.",
   ref="DESIGN.md §5 C01"),
 "C03": dict(
   technique="property-based testing of the encoder against an independent strict decoder of the binary grammar (proptest)",
   text="Every generated encoder call (corpus values of ~245 Rust types incl. vectors of wrapper types and a 70-entry type table through three native APIs, multi-argument builders, untyped values in canonical and user form with generated recursive environments and type tables of 60-140 entries) is parsed by an independent decoder in strict mode (composite-only table, ascending ids/names, minimal LEB128, little-endian widths, variant index matching the value's tag) and must yield bisimilar argument types and the abstract values computed from the inputs; re-encoding gives identical bytes. Exploration over generated types and values.",
   note="Trusts the harness's decoder (refmodel::rwire) as the reading of the binary grammar; table layout is not constrained beyond the grammar.",
   ref="DESIGN.md §5 C03"),
 "C08": dict(
   technique="property-based differential testing, native vs untyped decoding, with upgrade-neighbour and layout-twin wire types (proptest)",
   text="For each corpus Rust type T and generated message (T's own type, upgrade neighbours, layout twins such as text/blob/vec int8/principal or nat/natN), Decode! at T and untyped decoding at T's exported Candid type must agree on acceptance and on the abstract value; 128-bit host limits and BoundedVec limits are predicted from the untyped value. In three regions where they are known to disagree (open findings) exactly the recorded direction is tolerated by signature and counted; the opposite direction is still judged. Also: hand-made vector messages with foreign element codes for &[u8]/&str, and a fixed-size array followed by another argument. Exploration.",
   note="T's Candid type is exported by TypeContainer; BoundedVec data sizes follow the documented DataSize; error messages are used only to classify known findings, never for verdicts.",
   ref="DESIGN.md §5 C08"),
 "C10": dict(
   technique="property-based round-trip and near-miss rejection testing of the untyped value API with an independent decoder (proptest)",
   text="Generated (environment, type, inhabitant) triples in canonical and user form: annotate_type keeps meaning and is idempotent, typed encoding is deterministic and read back by an independent decoder, decoding at t and untyped returns v; single-fault near-miss values must be rejected by annotation and typed encoding. Exploration over generated recursive environments.",
   note="One known finding (reference types over uninhabited records) is tolerated by exact signature.",
   ref="DESIGN.md §5 C10"),
 "C02": dict(
   technique="property-based differential testing against an independent binary-format parser and coercion function (proptest, byte mutation)",
   text="Differential search: the untyped decoder (from_bytes_with_types, get_value_with_type+done, from_bytes) is compared on generated (message, expected types) pairs with an independent implementation of the binary grammar and of the spec's coercion relation (subtyping for references as a greatest fixed point). Messages come from the harness's own encoder over random recursive wire types with layout variations and byte mutations; expected types are upgrade-step neighbours in both directions, opt-wrappings, fresh types, and several references read at optional references over an edited copy of a mutually recursive environment (back-tracking with a shared subtype memo). Exploration: deep combinations are sampled; one genuine deviation is listed as a known finding. Thorough tier adds a libFuzzer stage over the same case function.",
   note="Trusts the harness's reading of spec/Candid.md (refmodel, ~2 kLoC); cases the spec leaves open are skipped and counted, not judged.",
   ref="DESIGN.md §5 C02"),
 "C09": dict(
   technique="enumeration + property-based differential testing against an arithmetic (S)LEB128 reference (proptest, two build profiles)",
   text="Differential search: every nat/int decoder and encoder entry point is compared with an independent big-integer definition of (S)LEB128 on all strings up to 2 (quick) / 3 (thorough) bytes, on boundary families around 64 and 128 bits with every final byte and several padding tails, and on generated strings up to 40 bytes; run in a debug-assertion build and in a release-like build so both panics and silent wrap-around are visible. Exploration, not proof: strings outside the enumerated families are only sampled.",
   note="Trusts num-bigint (reference arithmetic only) and the harness's own 60-line LEB128 definition; bytes consumed on rejection are not checked.",
   ref="DESIGN.md §5 C09"),
 "C16": dict(
   technique="enumeration + property-based differential testing against an own CRC-32/base32 principal codec (proptest)",
   text="Differential search against an independent implementation of the textual principal format: all byte strings of length <= 2 with systematic single edits of their text, random strings up to 40 bytes with random edits (substitution incl. non-ASCII characters whose Unicode case mapping is the replaced letter, case, dash moves, truncation, extension). Acceptance must coincide with 'lower-case form is the canonical text'. Exploration: longer principals are sampled, not enumerated.",
   note="Trusts the harness's CRC-32/base32 implementation (validated against the IC spec's published vectors in unit tests).",
   ref="DESIGN.md §5 C16"),
}

def main():
    checks = []
    for pid in sorted(CHECKS):
        c = CHECKS[pid]
        checks.append({
            "property_id": pid,
            "quick_cmd": f"./check {pid} --tier quick",
            "thorough_cmd": f"./check {pid} --tier thorough",
            "evidence_file": f"/verif/evidence/{pid}.json",
            "replay_cmd_template": f"./check {pid} --replay {{path}}",
            "engine": "vf",
            "level_claimed": {"category": "exploration", "text": c["text"], "design_ref": c["ref"]},
            "level_note": c["note"],
            "technique": c["technique"],
        })
    props = [json.loads(l)["id"] for l in open(os.path.join(ROOT, "properties.jsonl"))]
    na = [{"property_id": p, "reason": "check not built yet in this session (planned; see DESIGN.md §10)"}
          for p in props if p not in CHECKS]
    m = {
        "version": 1,
        "setup_cmd": "./check build",
        "hooks": {
            "guard": "none (no hook or instrumentation is committed in /repo; the checks observe public APIs only)",
            "enable": "n/a - checks build /repo's crates as plain path dependencies of /verif/harness/vf",
            "baseline_off_cmd": "/verif/tools/repo_tests.sh",
            "source_commits": [],
            "add_only": True,
        },
        "engines": [{
            "name": "vf",
            "path": "/verif/harness/vf",
            "serves_properties": sorted(CHECKS),
            "kind_free_text": "Rust harness: one case function per property decoded from an entropy buffer (arbitrary::Unstructured); driven by proptest (seeded, sharded over 16 worker processes, shrinking), enumerated sub-spaces, and strict replay; worker processes give crash/stack-overflow attribution; counting allocator; evidence writer",
        }],
        "checks": checks,
        "notes": "All commands run from /verif. ./check rebuilds the harness (cargo, offline) against /repo's working tree before every run. VERIF_SEED selects the PRNG seed (default 1). Exit 2 = inconclusive (infrastructure), never a violation. Known findings: /verif/known_findings.json.",
        "not_applicable": na,
    }
    json.dump(m, open(os.path.join(ROOT, "MANIFEST.json"), "w"), indent=1)
    print("wrote MANIFEST.json with", len(checks), "checks;", len(na), "not yet claimed")

main()
