#!/bin/bash
# Runs dfinity/candid's own test suite (hooks off: the verification machinery
# adds no cfg/feature to this build). Usage: tools/repo_tests.sh [repo-dir]
REPO="${1:-/repo}"
cd "$REPO" || exit 2
export RUSTUP_TOOLCHAIN=stable CARGO_NET_OFFLINE=true RUST_BACKTRACE=0
if cargo nextest --version >/dev/null 2>&1; then
  cargo nextest run --workspace --no-fail-fast --offline --test-threads 8 2>&1 | tail -15
  exit ${PIPESTATUS[0]}
else
  cargo test --workspace --no-fail-fast --offline 2>&1 | grep -E "^test result|FAILED|failed" 
  exit ${PIPESTATUS[0]}
fi
